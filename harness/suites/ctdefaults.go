package suites

// Suite "ctdefaults" (C16, production build): a device without a calibration file runs with the build's
// default multiplier and divider -- which differ from each other only in production builds (-2000 and
// 1000; both are 1000 in test builds), so this is checked in the binary built WITHOUT the test tag:
// the values the client holds after reading an absent file, and the value a reading gets under them.

import (
	"encoding/binary"
	"fmt"
	"os"
	"path/filepath"

	"github.com/glowlabs-org/gca-backend/client"
	"github.com/glowlabs-org/gca-backend/glow"
	"verifharness/core"
)

func init() { core.Register("ctdefaults", ctDefaultsSuite) }

func ctDefaultsSuite(seed uint64, tier, outDir string) (*core.Result, error) {
	res := core.NewResult("ctdefaults", seed, tier)
	dir, err := os.MkdirTemp("", "vh-ctdefaults-")
	if err != nil {
		return nil, err
	}
	defer os.RemoveAll(dir)
	cc := client.VerifConsts()
	wantM, wantD := float64(cc["EnergyMultiplierDefault"]), float64(cc["EnergyDividerDefault"])
	c, err := client.VerifNewBareClient(dir, false)
	if err != nil {
		return nil, err
	}
	m, d, rerr := c.VerifReadCTSettings()
	res.Count("ct.absent-file")
	desc := map[string]interface{}{"multiplier": m, "divider": d, "default_multiplier": wantM, "default_divider": wantD, "error": fmt.Sprint(rerr), "test_build": isTestBuild()}
	res.Case(desc, "ct-absent", true)
	if rerr != nil || m != wantM || d != wantD {
		res.Fail(fmt.Sprintf("without a calibration file the client runs with multiplier %v and divider %v; the build's defaults are %v and %v", m, d, wantM, wantD), "ct-defaults", desc)
	}
	// the value a reading gets: 500 mWh at the first slot after genesis
	os.WriteFile(filepath.Join(dir, client.EnergyFile), []byte(fmt.Sprintf("timestamp,energy (mWh)\n%d,500\n", int64(glow.GenesisTime)+300)), 0644)
	if filepath.IsAbs(client.EnergyFile) {
		res.Count("ct.energy-file-absolute") // production path outside the scratch directory: the value check is skipped
	} else if recs, err := c.VerifReadEnergyFile(); err == nil && len(recs) == 1 && wantD != 0 {
		want := uint64(int64(wantM * 500 / wantD))
		res.Count("ct.default-value")
		if recs[0].Energy != want {
			var b [8]byte
			binary.LittleEndian.PutUint64(b[:], recs[0].Energy)
			res.Fail(fmt.Sprintf("under the default calibration a reading of 500 becomes %d (two's complement %x), expected %d", int64(recs[0].Energy), b, int64(want)), "ct-default-value", desc)
		}
	}
	res.Required = []string{"ct.absent-file"}
	res.Rule = "absent calibration file in the build under test: the multiplier and divider held afterwards equal the build's default constants; one reading under them"
	return res, nil
}
