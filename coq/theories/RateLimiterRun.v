(* Evaluates the RateLimiter model on the histories the harness (suite limiter)
   ran against glow.RateLimiter.  Instants are half grid ticks. *)
From Coq Require Import ZArith List Bool.
From GCA Require Import RunLib RateLimiter.
Import ListNotations.
Open Scope Z_scope.

(* (limit, rate, calls = (instant, answer of Allow)) *)
Definition rl_case := (Z * Z * list (Z * bool))%type.

Definition rl_case_ok (cs : rl_case) : bool :=
  let '(lim, rate, calls) := cs in
  list_eqb Bool.eqb (rl_answers {| r_limit := lim; r_rate := rate |} [] (map fst calls)) (map snd calls).

Definition rl_mismatches := bad_indices rl_case_ok.
