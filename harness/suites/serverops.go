//go:build test && verif

package suites

// Generic operation generator for the real server plus the implementation-only
// oracles of C02, C03, C04, C06, C07 and C12.  Each suite picks a profile
// (operation weights) and scripted tours; every history is also rendered for the
// Gallina model (ServerRun.v), so the same run gives correspondence and oracle
// verdicts.

import (
	"bytes"
	"crypto/ecdsa"
	"encoding/binary"
	"encoding/hex"
	"fmt"
	"math"
	"math/big"
	"os"
	"path/filepath"
	"sort"
	"strings"

	"github.com/ethereum/go-ethereum/crypto"
	"github.com/glowlabs-org/gca-backend/glow"
	"github.com/glowlabs-org/gca-backend/server"
	"verifharness/core"
	"verifharness/srv"
)

// signWithNonce produces a valid, canonical (low-s) ECDSA signature with a caller-chosen
// nonce: a second, different signature for the same message under the same key.
func signWithNonce(msg []byte, k srv.Key, nonce *big.Int) (glow.Signature, bool) {
	priv, err := crypto.ToECDSA(k.Priv[:])
	if err != nil {
		return glow.Signature{}, false
	}
	curve := crypto.S256()
	n := curve.Params().N
	z := new(big.Int).SetBytes(crypto.Keccak256(msg))
	kk := new(big.Int).Mod(nonce, n)
	if kk.Sign() == 0 {
		return glow.Signature{}, false
	}
	rx, _ := curve.ScalarBaseMult(kk.Bytes())
	r := new(big.Int).Mod(rx, n)
	if r.Sign() == 0 {
		return glow.Signature{}, false
	}
	kinv := new(big.Int).ModInverse(kk, n)
	s := new(big.Int).Mul(r, priv.D)
	s.Add(s, z)
	s.Mul(s, kinv)
	s.Mod(s, n)
	if s.Sign() == 0 {
		return glow.Signature{}, false
	}
	half := new(big.Int).Rsh(n, 1)
	if s.Cmp(half) > 0 {
		s.Sub(n, s)
	}
	var sig glow.Signature
	r.FillBytes(sig[:32])
	s.FillBytes(sig[32:])
	_ = ecdsa.PublicKey{}
	return sig, true
}

// ---- reference encoders (documented layouts), independent of the repo's SigningBytes
func refStatsSigningBytes(a server.AllDeviceStats) []byte {
	b := []byte("AllDeviceStats")
	var u [8]byte
	binary.LittleEndian.PutUint32(u[:4], uint32(len(a.Devices)))
	b = append(b, u[:4]...)
	for _, d := range a.Devices {
		b = append(b, d.PublicKey[:]...)
		for _, p := range d.PowerOutputs {
			binary.LittleEndian.PutUint64(u[:], p)
			b = append(b, u[:]...)
		}
		for _, f := range d.ImpactRates {
			binary.LittleEndian.PutUint64(u[:], math.Float64bits(f))
			b = append(b, u[:]...)
		}
	}
	binary.LittleEndian.PutUint32(u[:4], a.TimeslotOffset)
	return append(b, u[:4]...)
}

type slotKey struct{ id, ts uint32 }

type sim struct {
	nestedArchive int32 // set while a second archive download runs inside a gap of the first
	allSpellings  bool  // statistics requests are repeated with every other spelling of the optional parameter
	forceNegZero  bool  // the next impact round hands out -0 for every device
	res           *core.Result
	w             *srv.World
	a             *actors
	r             *core.RNG
	regDone       bool
	regKey        glow.PublicKey
	nextID        uint32
	// C02: distinct valid datagrams delivered per live (device, slot), and whether one exceeded capacity
	slotSet  map[slotKey]map[string]uint64
	slotOver map[slotKey]bool
	// C03: canonical archived record per week offset
	archived map[uint32]string
	sent     [][]byte
	alive    bool
	// set by tours that close the world themselves (the case is already registered)
	closedTerm string
	// C05: views before/after every operation, indexed by the hop range the operation produced
	opViews  []opView
	hopViews map[int]server.VerifSnap // view after n hops
	crash    bool
}

type opView struct {
	from, to  int
	pre, post server.VerifSnap
}

func newSim(res *core.Result, r *core.RNG, name string, now0 uint32, http bool) (*sim, error) {
	w, err := srv.NewWorld(r, name, now0)
	if err != nil {
		return nil, err
	}
	w.UseHTTP = http
	s := &sim{res: res, w: w, r: r, nextID: 10, slotSet: map[slotKey]map[string]uint64{}, slotOver: map[slotKey]bool{}, archived: map[uint32]string{}, alive: true}
	s.a = &actors{GCA: srv.DetKey(r)}
	copy(s.a.Server.Pub[:], w.Fresh[0])
	copy(s.a.Server.Priv[:], w.Fresh[1])
	// archived weeks created by the start-up catch-up
	sn := w.S.VerifSnapshot()
	for _, h := range sn.History {
		s.archived[h.TimeslotOffset] = srv.CoqStats(h)
	}
	return s, nil
}

func (s *sim) fail(what, key string) {
	s.res.Fail(what, key, map[string]interface{}{"history": s.w.Desc})
}

func viewJSON(sn server.VerifSnap, withImpact bool) string { return snapJSON(sn, withImpact) }

// ---------------------------------------------------------------- registration (C07)

func (s *sim) register(kind string) {
	w := s.w
	before := w.S.VerifSnapshot()
	var key glow.PublicKey
	var sig glow.Signature
	cand := srv.DetKey(s.r)
	switch kind {
	case "valid":
		key = s.a.GCA.Pub
		sig = w.Sign((&server.GCARegistration{GCAKey: key}).SigningBytes(), w.Temp)
	case "wrong-signer": // signed by the candidate GCA itself instead of the temporary key
		key = cand.Pub
		sig = w.Sign((&server.GCARegistration{GCAKey: key}).SigningBytes(), cand)
	case "altered-key": // genuine signature, other key
		key = cand.Pub
		sig = w.Sign((&server.GCARegistration{GCAKey: s.a.GCA.Pub}).SigningBytes(), w.Temp)
	case "other-valid": // a second candidate correctly signed by the temporary key
		key = cand.Pub
		sig = w.Sign((&server.GCARegistration{GCAKey: key}).SigningBytes(), w.Temp)
	case "by-gca": // the registered GCA tries to replace itself
		key = cand.Pub
		sig = w.Sign((&server.GCARegistration{GCAKey: key}).SigningBytes(), s.a.GCA)
	case "prefixless": // signature over the bare key without the type prefix
		key = cand.Pub
		sig = w.Sign(key[:], w.Temp)
	case "zero-key": // the all-zero key, correctly signed by the temporary key: a registration like any other
		key = glow.PublicKey{}
		sig = w.Sign((&server.GCARegistration{GCAKey: key}).SigningBytes(), w.Temp)
	}
	ob := w.Register(key, sig, kind)
	after := w.S.VerifSnapshot()
	s.res.Count("register." + kind)
	accepted := strings.Contains(ob, "Accepted")
	// oracle C07
	if accepted {
		if before.GCAAvailable {
			s.fail("a second GCA registration succeeded ("+kind+")", "c07-second-registration")
		}
		if !refVerify(w.Temp.Pub, append([]byte("GCARegistration"), key[:]...), sig) {
			s.fail("a registration not signed by the temporary key was accepted ("+kind+")", "c07-unsigned-registration")
		}
		if !after.GCAAvailable || after.GCAKey != key {
			s.fail("accepted registration did not install the submitted key", "c07-key-not-installed")
		}
		s.regDone, s.regKey = true, key
		if key != s.a.GCA.Pub && kind != "zero-key" { // another candidate won: it becomes the GCA of this history
			s.a.GCA = cand
		}
	} else if viewJSON(before, true) != viewJSON(after, true) {
		s.fail("a refused registration changed the server state ("+kind+")", "c07-refused-changed")
	}
	if !accepted && !s.regDone && (kind == "valid" || kind == "other-valid" || kind == "zero-key") && ob != "ObsPanic" {
		s.fail("a registration correctly signed by the temporary key is refused although no registration was ever accepted on this server ("+kind+")", "c07-rightful-registration-refused")
	}
	if before.GCAAvailable && (after.GCAKey != before.GCAKey || !after.GCAAvailable) {
		s.fail("the registered GCA key was replaced ("+kind+")", "c07-key-replaced")
	}
	if ob == "ObsPanic" {
		s.fail("registration request panics", "panic-register")
	}
}

// ---------------------------------------------------------------- equipment (C06)

func (s *sim) newDevice(cap uint64) *device {
	d := &device{ID: s.nextID, K: srv.DetKey(s.r), Cap: cap}
	s.nextID += uint32(1 + s.r.Intn(6))
	return d
}

// authorize submits an authorization and evaluates the C06/C07 oracle.
func (s *sim) authorize(ea glow.EquipmentAuthorization, kind string) string {
	w := s.w
	before := w.S.VerifSnapshot()
	ob := w.Authorize(ea, kind)
	after := w.S.VerifSnapshot()
	s.res.Count("authorize." + kind)
	if ob == "ObsPanic" {
		s.fail("authorization request panics ("+kind+")", "panic-authorize")
		return ob
	}
	changed := viewJSON(before, true) != viewJSON(after, true)
	sigOK := before.GCAAvailable && refVerify(before.GCAKey, refAuthSigningBytes(ea), ea.Signature)
	if changed && !before.GCAAvailable {
		s.fail("equipment changed before any GCA registration", "c07-equipment-before-registration")
	}
	if changed && !sigOK {
		s.fail("an authorization without the registered GCA's signature changed the equipment ("+kind+")", "c06-unsigned-change")
	}
	cur, had := before.Equipment[ea.ShortID]
	wasBanned := false
	for _, b := range before.Bans {
		if b == ea.ShortID {
			wasBanned = true
		}
	}
	if os.Getenv("VERIF_DEBUG") != "" && strings.HasPrefix(kind, "conflict-signed") {
		fmt.Fprintf(os.Stderr, "DEBUG kind=%s sigOK=%v had=%v eq=%v changed=%v ob=%s avail=%v\n", kind, sigOK, had, cur == ea, changed, ob, before.GCAAvailable)
	}
	if sigOK {
		switch {
		case wasBanned:
			if changed || strings.Contains(ob, "Accepted") {
				s.fail("an authorization for a banned id was accepted or changed state", "c06-banned-accepted")
			}
		case had && cur == ea:
			if changed {
				s.fail("resubmitting an identical authorization changed state", "c06-duplicate-changed")
			}
		case had:
			// conflict: exactly this id is banned, everything else untouched
			exp := before
			exp.Equipment = map[uint32]glow.EquipmentAuthorization{}
			for k, v := range before.Equipment {
				if k != ea.ShortID {
					exp.Equipment[k] = v
				}
			}
			exp.Reports = map[uint32][]server.VerifSlot{}
			for k, v := range before.Reports {
				if k != ea.ShortID {
					exp.Reports[k] = v
				}
			}
			exp.Impact = map[uint32][]server.VerifRate{}
			for k, v := range before.Impact {
				if k != ea.ShortID {
					exp.Impact[k] = v
				}
			}
			exp.Index = map[glow.PublicKey]uint32{}
			for k, v := range before.Index {
				if v != ea.ShortID {
					exp.Index[k] = v
				}
			}
			exp.Bans = append(append([]uint32{}, before.Bans...), ea.ShortID)
			sort.Slice(exp.Bans, func(i, j int) bool { return exp.Bans[i] < exp.Bans[j] })
			if viewJSON(exp, true) != viewJSON(after, true) {
				s.fail("a conflicting authorization did not ban exactly that id leaving every other device untouched ("+kind+")", "c06-conflict-effect")
			}
			for _, d := range s.a.Devices {
				if d.ID == ea.ShortID {
					d.Banned = true
				}
			}
			for k := range s.slotSet {
				if k.id == ea.ShortID {
					delete(s.slotSet, k)
					delete(s.slotOver, k)
				}
			}
		default:
			if _, ok := after.Equipment[ea.ShortID]; !ok || !strings.Contains(ob, "Accepted true") {
				s.fail("a correctly signed authorization for a fresh id was not accepted", "c06-fresh-refused")
			}
		}
	}
	return ob
}

func refAuthSigningBytes(a glow.EquipmentAuthorization) []byte {
	b := []byte("EquipmentAuthorization")
	var u [8]byte
	binary.LittleEndian.PutUint32(u[:4], a.ShortID)
	b = append(b, u[:4]...)
	b = append(b, a.PublicKey[:]...)
	for _, x := range []uint64{math.Float64bits(a.Latitude), math.Float64bits(a.Longitude), a.Capacity, a.Debt} {
		binary.LittleEndian.PutUint64(u[:], x)
		b = append(b, u[:]...)
	}
	binary.LittleEndian.PutUint32(u[:4], a.Expiration)
	b = append(b, u[:4]...)
	binary.LittleEndian.PutUint32(u[:4], a.Initialization)
	b = append(b, u[:4]...)
	binary.LittleEndian.PutUint64(u[:], a.ProtocolFee)
	return append(b, u[:]...)
}

func (s *sim) mkAuth(d *device, signer srv.Key) glow.EquipmentAuthorization {
	lats := []float64{0, math.Copysign(0, -1), 5e-324, 37.5, -89.999, 0.1, 1.2345678901234567e+2, -179.9999999999999}
	// the expiration is data for the clients of the protocol: the server accepts, keeps, bans and reloads an
	// authorization whatever the value is (in the past, at the clock, just ahead of it, maximal)
	exps := []uint32{1 << 30, 0, s.w.Now, 0xffffffff, s.w.Now + 40, 7}
	ea := glow.EquipmentAuthorization{ShortID: d.ID, PublicKey: d.K.Pub, Latitude: lats[int(d.ID)%len(lats)] + float64(d.ID)/1024, Longitude: float64(d.ID)*0.37 - 90,
		Capacity: d.Cap, Debt: uint64(d.ID) * 3, Expiration: exps[int(d.ID/3)%len(exps)], Initialization: d.ID % 97, ProtocolFee: uint64(d.ID) * 11}
	ea.Signature = s.w.Sign(ea.SigningBytes(), signer)
	return ea
}

func (s *sim) addDevice(cap uint64) *device {
	d := s.newDevice(cap)
	d.Auth = s.mkAuth(d, s.a.GCA)
	if ob := s.authorize(d.Auth, "new"); strings.Contains(ob, "Accepted true") {
		s.a.Devices = append(s.a.Devices, d)
		return d
	}
	return nil
}

func (s *sim) liveDevices() []*device {
	var out []*device
	for _, d := range s.a.Devices {
		if !d.Banned {
			out = append(out, d)
		}
	}
	return out
}

func (s *sim) authorizeVariant(kind string) {
	live := s.liveDevices()
	switch kind {
	case "new":
		caps := append([]uint64{1000, 5000, 1 << 20, 0, 100, 1 << 62, (1<<64 - 1) / 135, 1000, 5000, 100}, capBoundaries()...)
		s.addDevice(caps[s.r.Intn(len(caps))])
	case "duplicate":
		if len(live) > 0 {
			s.authorize(live[s.r.Intn(len(live))].Auth, "duplicate")
		}
	case "bad-signature":
		d := s.newDevice(1000)
		ea := s.mkAuth(d, s.a.GCA)
		ea.Signature[s.r.Intn(64)] ^= 1 << uint(s.r.Intn(8))
		s.authorize(ea, "bad-signature")
	case "foreign-signature":
		d := s.newDevice(1000)
		signer := []srv.Key{s.w.Temp, s.a.Server, d.K}[s.r.Intn(3)]
		s.authorize(s.mkAuth(d, signer), "foreign-signature")
	case "conflict-field":
		if len(live) > 0 {
			d := live[s.r.Intn(len(live))]
			ea := d.Auth
			switch s.r.Intn(8) {
			case 0:
				ea.Latitude += 1
			case 1:
				ea.Longitude -= 0.5
			case 2:
				ea.Capacity++
			case 3:
				ea.Debt++
			case 4:
				ea.Expiration--
			case 5:
				ea.Initialization++
			case 6:
				ea.ProtocolFee++
			default:
				ea.PublicKey = srv.DetKey(s.r).Pub
			}
			ea.Signature = s.w.Sign(ea.SigningBytes(), s.a.GCA)
			s.authorize(ea, "conflict-field")
		}
	case "conflict-other-key":
		if len(live) > 1 {
			d := live[0]
			o := live[1+s.r.Intn(len(live)-1)]
			ea := d.Auth
			ea.PublicKey = o.K.Pub
			ea.Signature = s.w.Sign(ea.SigningBytes(), s.a.GCA)
			s.authorize(ea, "conflict-other-key")
		}
	case "banned-id":
		for _, d := range s.a.Devices {
			if d.Banned {
				ea := d.Auth
				ea.Capacity += 7
				ea.Signature = s.w.Sign(ea.SigningBytes(), s.a.GCA)
				s.authorize(ea, "banned-id")
				s.authorize(d.Auth, "banned-id-original")
				break
			}
		}
	case "before-registration":
		d := s.newDevice(1000)
		signer := []srv.Key{s.w.Temp, s.a.GCA}[s.r.Intn(2)]
		s.authorize(s.mkAuth(d, signer), "before-registration")
	}
}

// ---------------------------------------------------------------- reports (C01, C02)

func (s *sim) deliverReport(dg []byte, class string) {
	w := s.w
	before := w.S.VerifSnapshot()
	allowed, _ := c01Allowed(w, before, dg, w.Now)
	deliver(s.res, w, dg, class, false)
	if !allowed || len(dg) < 80 {
		return
	}
	id := binary.LittleEndian.Uint32(dg[0:4])
	ts := binary.LittleEndian.Uint32(dg[4:8])
	p := binary.LittleEndian.Uint64(dg[8:16])
	k := slotKey{id, ts}
	if s.slotSet[k] == nil {
		s.slotSet[k] = map[string]uint64{}
	}
	s.slotSet[k][string(dg[:80])] = p
	cap := before.Equipment[id].Capacity
	lim := new(big.Int).Mul(new(big.Int).SetUint64(cap), big.NewInt(135))
	lim.Div(lim, big.NewInt(100))
	if p <= math.MaxInt64 && new(big.Int).SetUint64(p).Cmp(lim) > 0 {
		s.slotOver[k] = true
	}
	s.checkSlot(k, "after delivery")
}

// checkSlot: C02 oracle for one (device, slot).
func (s *sim) checkSlot(k slotKey, when string) {
	sn := s.w.S.VerifSnapshot()
	if int64(k.ts) < int64(sn.Offset) || int64(k.ts) >= int64(sn.Offset)+4032 {
		return
	}
	var got uint64
	for _, sl := range sn.Reports[k.id] {
		if uint32(sl.Index)+sn.Offset == k.ts {
			got = sl.Report.PowerOutput
		}
	}
	set := s.slotSet[k]
	var want uint64
	switch {
	case len(set) == 0:
		want = 0
	case s.slotOver[k] || len(set) >= 2:
		want = 1
	default:
		for _, p := range set {
			want = p
		}
	}
	if got != want {
		s.fail(fmt.Sprintf("published value of device %d slot %d is %d but the report rules give %d (%d distinct valid reports, over capacity: %v) %s", k.id, k.ts, got, want, len(set), s.slotOver[k], when), "c02-slot-value")
	}
}

func (s *sim) checkAllSlots(when string) {
	for k := range s.slotSet {
		s.checkSlot(k, when)
	}
}

func (s *sim) report(class string) {
	live := s.liveDevices()
	if len(live) == 0 {
		return
	}
	w := s.w
	d := live[s.r.Intn(len(live))]
	sn := w.S.VerifSnapshot()
	off := sn.Offset
	// timeslot: mostly acceptable and in the window, clustered on a few slots so that replays / conflicts happen
	base := int64(w.Now)
	cands := []int64{base, base - 1, base + 1, base - 2, base + 3, base + 432, base - 432, base + 433, base - 433, int64(off), int64(off) - 1, int64(off) + 4031, int64(off) + 4032}
	ts64 := cands[s.r.Intn(len(cands))]
	if s.r.Chance(60) {
		ts64 = cands[s.r.Intn(5)]
	}
	if ts64 < 0 {
		ts64 = 0
	}
	ts := uint32(ts64)
	lim := new(big.Int).Mul(new(big.Int).SetUint64(d.Cap), big.NewInt(135))
	lim.Div(lim, big.NewInt(100))
	var l uint64 = math.MaxUint64
	if lim.IsUint64() {
		l = lim.Uint64()
	}
	ps := []uint64{2, 3, 24, 500, 777, l, l + 1, l - 1, 1<<63 - 2, 1<<63 - 1, 1 << 63, 1<<64 - 1, 0, 1}
	p := ps[s.r.Intn(len(ps))]
	if s.r.Chance(50) {
		p = ps[s.r.Intn(5)]
	}
	switch class {
	case "resigned": // same content, different (valid) signature
		if len(s.sent) > 0 {
			g := s.sent[s.r.Intn(len(s.sent))]
			id := binary.LittleEndian.Uint32(g[0:4])
			for _, dd := range live {
				if dd.ID == id {
					ts2 := binary.LittleEndian.Uint32(g[4:8])
					p2 := binary.LittleEndian.Uint64(g[8:16])
					msg := refReportSigningBytes(id, ts2, p2)
					sig, ok := signWithNonce(msg, dd.K, new(big.Int).SetUint64(s.r.U64()|1))
					if ok && glow.Verify(dd.K.Pub, msg, sig) {
						w.Sigs = append(w.Sigs, srv.SigTriple{Key: append([]byte{}, dd.K.Pub[:]...), Msg: msg, Sig: append([]byte{}, sig[:]...)})
						s.deliverReport(refReportBytes(id, ts2, p2, sig), "resigned-same-content")
					}
					return
				}
			}
		}
		return
	case "replay":
		if len(s.sent) > 0 {
			s.deliverReport(s.sent[s.r.Intn(len(s.sent))], "replay")
		}
		return
	}
	dg := s.a.report(w, d, ts, p, d.K)
	s.sent = append(s.sent, dg)
	s.deliverReport(dg, "report")
}

func (s *sim) hostileDatagram() {
	w := s.w
	live := s.liveDevices()
	switch s.r.Intn(5) {
	case 0:
		deliver(s.res, w, s.r.Bytes(s.r.Intn(201)), "hostile-random", false)
	case 1:
		if len(s.sent) > 0 {
			deliver(s.res, w, flipBit(s.sent[s.r.Intn(len(s.sent))], s.r.Intn(640)), "hostile-bitflip", false)
		}
	case 2:
		if len(live) > 0 {
			d := live[s.r.Intn(len(live))]
			signer := []srv.Key{s.a.GCA, s.a.Server, w.Temp, srv.DetKey(s.r)}[s.r.Intn(4)]
			deliver(s.res, w, s.a.report(w, d, w.Now, 900, signer), "hostile-resigned", false)
		}
	case 3:
		for _, d := range s.a.Devices {
			if d.Banned {
				deliver(s.res, w, s.a.report(w, d, w.Now, 900, d.K), "hostile-banned-device", false)
				break
			}
		}
	default:
		if len(s.sent) > 0 {
			g := s.sent[s.r.Intn(len(s.sent))]
			deliver(s.res, w, g[:s.r.Intn(80)], "hostile-truncated", false)
		}
	}
}

// ---------------------------------------------------------------- rotation, statistics (C03)

func expectedWeek(sn server.VerifSnap, x int, tso uint32) string {
	a := server.AllDeviceStats{TimeslotOffset: tso}
	for id, slots := range sn.Reports {
		var ds server.DeviceStats
		ds.PublicKey = sn.Equipment[id].PublicKey
		for _, sl := range slots {
			if sl.Index >= x && sl.Index < x+2016 {
				ds.PowerOutputs[sl.Index-x] = sl.Report.PowerOutput
			}
		}
		for _, rt := range sn.Impact[id] {
			if rt.Index >= x && rt.Index < x+2016 {
				ds.ImpactRates[rt.Index-x] = math.Float64frombits(rt.Bits)
			}
		}
		a.Devices = append(a.Devices, ds)
	}
	return srv.CoqStats(a)
}

// rotateTick runs one iteration of the real rotation thread and checks rotation exactness.
func (s *sim) rotateTick() {
	w := s.w
	before := w.S.VerifSnapshot()
	if !w.RotateTick("tick") {
		return
	}
	after := w.S.VerifSnapshot()
	s.res.Count("rotate.tick")
	should := int64(w.Now)-int64(before.Offset) > 3200
	if (after.Offset != before.Offset) != should {
		s.fail(fmt.Sprintf("rotation thread: clock %d offset %d: rotated=%v", w.Now, before.Offset, after.Offset != before.Offset), "c03-rotation-trigger")
	}
	if after.Offset != before.Offset {
		s.res.Count("rotate.rotated")
		s.checkRotation(before, after, "rotation thread")
	} else if viewJSON(before, true) != viewJSON(after, true) {
		s.fail("an idle rotation check changed the state", "c03-idle-tick-changed")
	}
}

func (s *sim) checkRotation(before, after server.VerifSnap, who string) {
	if after.Offset != before.Offset+2016 {
		s.fail("rotation moved the window offset by something other than 2016 ("+who+")", "c03-offset-step")
		return
	}
	if len(after.History) != len(before.History)+1 {
		s.fail("rotation did not archive exactly one week ("+who+")", "c03-history-length")
		return
	}
	got := srv.CoqStats(after.History[len(after.History)-1])
	want := expectedWeek(before, 0, before.Offset)
	if got != want {
		s.fail("the archived week differs from the first half of the window before the rotation (values lost, shifted or duplicated) ("+who+")", "c03-archive-content")
	}
	// second half shifted down, rest blank
	exp := before
	exp.Offset = after.Offset
	exp.History = after.History
	exp.Reports = map[uint32][]server.VerifSlot{}
	for id, slots := range before.Reports {
		out := []server.VerifSlot{}
		for _, sl := range slots {
			if sl.Index >= 2016 {
				out = append(out, server.VerifSlot{Index: sl.Index - 2016, Report: sl.Report})
			}
		}
		exp.Reports[id] = out
	}
	exp.Impact = map[uint32][]server.VerifRate{}
	for id, rates := range before.Impact {
		out := []server.VerifRate{}
		for _, rt := range rates {
			if rt.Index >= 2016 {
				out = append(out, server.VerifRate{Index: rt.Index - 2016, Bits: rt.Bits})
			}
		}
		exp.Impact[id] = out
	}
	if viewJSON(exp, true) != viewJSON(after, true) {
		s.fail("after the rotation the live window is not the old second half moved down ("+who+")", "c03-shift-content")
	}
	s.archived[before.Offset] = got
	for k := range s.slotSet {
		if k.ts < after.Offset {
			delete(s.slotSet, k)
			delete(s.slotOver, k)
		}
	}
	s.checkArchive(after, who)
}

// checkArchive: weeks are contiguous from 0 and every archived record is what was first archived.
func (s *sim) checkArchive(sn server.VerifSnap, when string) {
	if uint32(len(sn.History))*2016 != sn.Offset {
		s.fail("archived weeks are not contiguous from week 0 up to the window offset ("+when+")", "c03-contiguous")
	}
	for i, h := range sn.History {
		if h.TimeslotOffset != uint32(i)*2016 {
			s.fail("archived week has the wrong offset label ("+when+")", "c03-week-label")
		}
		if want, ok := s.archived[h.TimeslotOffset]; ok && srv.CoqStats(h) != want {
			s.fail(fmt.Sprintf("archived week %d changed after it was archived (%s)", h.TimeslotOffset, when), "c03-archive-mutated")
		}
	}
}

func (s *sim) advanceClock() {
	w := s.w
	sn := w.S.VerifSnapshot()
	steps := []uint32{1, 5, 100, 431, 432, 433, 1000, 2016, 3201, 4100, 6100}
	w.SetNow(w.Now + steps[s.r.Intn(len(steps))])
	_ = sn
	s.res.Count("clock.advance")
	if s.r.Chance(70) {
		for i := 0; i < 6; i++ {
			sn = w.S.VerifSnapshot()
			if int64(w.Now)-int64(sn.Offset) <= 3200 {
				break
			}
			s.rotateTick()
		}
	}
}

func (s *sim) impactRound(between func()) {
	w := s.w
	sn := w.S.VerifSnapshot()
	if len(sn.Equipment) == 0 {
		return
	}
	vals := map[uint32]float64{}
	tss := map[uint32]uint32{}
	for id := range sn.Equipment {
		vals[id] = float64(100+s.r.Intn(900)) + float64(s.r.Intn(8))/8
		if s.r.Chance(8) || s.forceNegZero {
			vals[id] = math.Copysign(0, -1) // -0: a value like any other for storage, archive and signature
			s.res.Count("impact.negative-zero")
		}
		d := []int64{0, -1, 1, 2015, 2016, 4031, 4032, -3000}[s.r.Intn(8)]
		if s.r.Chance(60) {
			d = int64(w.Now) - int64(sn.Offset)
		}
		t := int64(sn.Offset) + d
		if t < 0 {
			t = 0
		}
		tss[id] = uint32(t)
	}
	asked := map[uint32]bool{}
	s.forceNegZero = false
	if w.ImpactRound(func(id uint32) (float64, uint32) { asked[id] = true; return vals[id], tss[id] }, between, "round") {
		s.fail("the impact data job panics (in its background thread this kills the server)", "panic-impact")
	}
	s.res.Count("impact.round")
	// whatever ran between the job's two critical sections: afterwards the impact table (by absolute
	// timeslot) differs from before only at (device, timeslot) pairs the job was given, with the
	// value it was given -- and every given pair that is inside the final window of a device that
	// is still present holds that value (the outcome of the sequential order "interference, then write")
	after := w.S.VerifSnapshot()
	abs := func(sn server.VerifSnap) map[slotKey]uint64 {
		m := map[slotKey]uint64{}
		for id, rs := range sn.Impact {
			for _, x := range rs {
				m[slotKey{id, sn.Offset + uint32(x.Index)}] = x.Bits
			}
		}
		return m
	}
	b, a := abs(sn), abs(after)
	for k, v := range a {
		if b[k] == v {
			continue
		}
		if t, ok := tss[k.id]; !ok || t != k.ts || math.Float64bits(vals[k.id]) != v {
			s.fail(fmt.Sprintf("impact job with an operation running between its two critical sections: device %d timeslot %d now holds rate %v, which the job was not given for that timeslot (given: timeslot %d rate %v; window offset before %d, after %d)",
				k.id, k.ts, math.Float64frombits(v), tss[k.id], vals[k.id], sn.Offset, after.Offset), "impact-misplaced")
		}
	}
	for id, t := range tss {
		if _, present := after.Equipment[id]; !present || int64(t) < int64(after.Offset) || int64(t) >= int64(after.Offset)+4032 {
			continue
		}
		if !asked[id] {
			continue
		}
		if a[slotKey{id, t}] != math.Float64bits(vals[id]) && vals[id] != 0 {
			s.fail(fmt.Sprintf("impact job with an operation running between its two critical sections: the rate %v given for device %d timeslot %d (inside the window at offset %d) was not stored", vals[id], id, t, after.Offset), "impact-lost")
		}
	}
}

func (s *sim) stats(kind string, falseNeg bool) {
	w := s.w
	sn := w.S.VerifSnapshot()
	var tso uint32
	switch kind {
	case "archived":
		if len(sn.History) == 0 {
			return
		}
		tso = uint32(s.r.Intn(len(sn.History))) * 2016
	case "live1":
		tso = sn.Offset
	case "live2":
		tso = sn.Offset + 2016
	case "future":
		tso = sn.Offset + 2016*uint32(2+s.r.Intn(3))
	case "misaligned":
		tso = sn.Offset + uint32(1+s.r.Intn(2015))
	case "misaligned-archived":
		// a misaligned offset inside an already archived week: refused like any other misaligned one
		if len(sn.History) == 0 {
			return
		}
		tso = uint32(s.r.Intn(len(sn.History)))*2016 + []uint32{1, 1000, 2015, uint32(1 + s.r.Intn(2015))}[s.r.Intn(4)]
		kind = "misaligned"
		s.res.Count("stats.misaligned-archived")
	case "huge":
		// week offsets that do not fit 32 bits must be refused, not wrapped onto a servable week
		for _, k := range []uint64{1, 2, 63, 1 << 31} {
			for _, low := range []uint64{0, uint64(sn.Offset), uint64(sn.Offset) + 2016} {
				q := fmt.Sprintf("/api/v1/all-device-stats?timeslot_offset=%d", k<<32+low)
				rr := w.Raw("GET", q, nil)
				s.res.Count("stats.huge")
				if rr.Panicked {
					s.fail("statistics request panics the handler (huge offset)", "panic-stats")
				} else if rr.Status == 200 {
					s.fail(fmt.Sprintf("a week offset of %d (not a 32-bit value) was served instead of refused", k<<32+low), "c03-huge-offset-served")
				}
			}
		}
		return
	}
	ads, r := w.Stats(tso, falseNeg, !falseNeg, kind)
	s.res.Count("stats." + kind)
	if falseNeg {
		s.res.Count("stats.false-negatives")
	}
	if r.Panicked || r.Err != nil {
		s.fail("statistics request panics the handler ("+kind+")", "panic-stats")
		return
	}
	switch kind {
	case "future", "misaligned":
		if r.Status == 200 {
			s.fail("a "+kind+" week was served instead of refused", "c03-"+kind+"-served")
		}
		return
	}
	if ads == nil {
		s.fail("a servable week was refused ("+kind+")", "c03-refused-valid-week")
		return
	}
	if ads.TimeslotOffset != tso {
		s.fail("statistics are labelled with a different week than requested", "c03-label")
	}
	var want string
	switch kind {
	case "archived":
		want = srv.CoqStats(sn.History[tso/2016])
	case "live1":
		want = expectedWeek(sn, 0, tso)
	case "live2":
		want = expectedWeek(sn, 2016, tso)
	}
	if !falseNeg {
		if srv.CoqStats(*ads) != want {
			s.fail("the statistics served for a "+kind+" week differ from the accepted reports", "c03-content-"+kind)
		}
		if !refVerify(s.a.Server.Pub, refStatsSigningBytes(*ads), ads.Signature) {
			s.fail("statistics signature does not verify under the server key over the documented layout ("+kind+")", "c03-signature")
		}
		// only the documented spelling insert_false_negatives=true asks for falsified values: every other
		// value of the parameter (and unknown parameters) is an ordinary request with the ordinary answer
		spellings := []string{"&insert_false_negatives=1", "&insert_false_negatives=TRUE", "&insert_false_negatives=t", "&insert_false_negatives=True", "&insert_false_negatives=T", "&insert_false_negatives=false", "&insert_false_negatives=", "&other=true"}
		if !s.allSpellings {
			spellings = spellings[s.r.Intn(len(spellings)):][:1]
		}
		for _, q := range spellings {
			a2, rr := w.StatsWith(tso, q)
			s.res.Count("stats.other-parameters")
			if rr.Panicked {
				s.fail("statistics request panics the handler ("+q+")", "panic-stats")
			} else if a2 == nil || srv.CoqStats(*a2) != want || !refVerify(s.a.Server.Pub, refStatsSigningBytes(*a2), a2.Signature) {
				s.fail("the "+kind+" week requested with "+q+" is not the signed record of the plain request", "c03-parameter-changes-record")
				break
			}
		}
	} else {
		// each value is the true one or its negation; small and already negative values are untouched
		ref := map[string][2016]uint64{}
		var wantAds server.AllDeviceStats
		if kind == "archived" {
			wantAds = sn.History[tso/2016]
		} else {
			x := 0
			if kind == "live2" {
				x = 2016
			}
			for id, slots := range sn.Reports {
				var ds server.DeviceStats
				ds.PublicKey = sn.Equipment[id].PublicKey
				for _, sl := range slots {
					if sl.Index >= x && sl.Index < x+2016 {
						ds.PowerOutputs[sl.Index-x] = sl.Report.PowerOutput
					}
				}
				wantAds.Devices = append(wantAds.Devices, ds)
			}
		}
		for _, d := range wantAds.Devices {
			ref[string(d.PublicKey[:])] = d.PowerOutputs
		}
		for _, d := range ads.Devices {
			tr, ok := ref[string(d.PublicKey[:])]
			if !ok {
				s.fail("false-negative response lists an unknown device", "c03-fn-device")
				continue
			}
			for i, v := range d.PowerOutputs {
				t := tr[i]
				neg := uint64(-1 * float64(t))
				if v != t && !(t >= 24 && float64(t) <= 1e18 && v == neg) {
					s.fail("false-negative response carries a value that is neither the true one nor its negation", "c03-fn-value")
					break
				}
			}
		}
	}
	// whatever was asked, nothing archived may have changed
	s.checkArchive(w.S.VerifSnapshot(), "after a statistics query ("+kind+fmt.Sprintf(", false_negatives=%v)", falseNeg))
}

// ---------------------------------------------------------------- restart (C04)

func rotateView(sn server.VerifSnap) server.VerifSnap {
	out := sn
	out.Offset = sn.Offset + 2016
	out.Reports = map[uint32][]server.VerifSlot{}
	for id, slots := range sn.Reports {
		o := []server.VerifSlot{}
		for _, sl := range slots {
			if sl.Index >= 2016 {
				o = append(o, server.VerifSlot{Index: sl.Index - 2016, Report: sl.Report})
			}
		}
		out.Reports[id] = o
	}
	return out
}

// restart closes and reopens the server; newNow >= current clock is the clock found at start-up.
func (s *sim) restart(newNow uint32) bool {
	w := s.w
	if !w.Quiesce() {
		return false
	}
	before := w.S.VerifSnapshot()
	ok, err, pan := w.Restart(newNow, "restart")
	s.res.Count("restart")
	if pan != "" {
		if strings.HasPrefix(pan, "Close") {
			s.fail("server consistency check (CheckInvariants) panics at shutdown: "+pan, "checkinvariants-panic")
		} else {
			s.fail("start-up on the server's own directory panics: "+pan, "c04-start-panics")
		}
		s.alive = false
		return false
	}
	if !ok {
		s.fail(fmt.Sprintf("restart on the server's own directory fails: %v", err), "c04-start-fails")
		s.alive = false
		return false
	}
	after := w.S.VerifSnapshot()
	// expected: the same facts, advanced by the catch-up rotations the new clock requires
	exp := before
	k := 0
	var expWeeks []string // the weeks the catch-up has to archive: the persisted live reports, no impact rates (not persisted)
	for int64(newNow)-int64(exp.Offset) >= 4000 {
		ev := exp
		ev.Impact = nil
		expWeeks = append(expWeeks, expectedWeek(ev, 0, exp.Offset))
		exp = rotateView(exp)
		k++
	}
	if k > 0 {
		s.res.Count("restart.catchup")
	}
	expV, gotV := exp, after
	expV.History, gotV.History = nil, nil
	if viewJSON(expV, false) != viewJSON(gotV, false) {
		s.fail("the state after restart differs from the state before shutdown (devices, bans, per-slot values, offset or GCA key)", "c04-view-differs")
	}
	if len(after.History) != len(before.History)+k {
		s.fail("restart changed the number of archived weeks beyond the catch-up rotations", "c04-history-length")
	}
	for i := range before.History {
		if i < len(after.History) && srv.CoqStats(before.History[i]) != srv.CoqStats(after.History[i]) {
			s.fail("an archived week changed across restart", "c04-archive-differs")
		}
	}
	for i, wk := range expWeeks {
		if j := len(before.History) + i; j < len(after.History) && srv.CoqStats(after.History[j]) != wk {
			s.fail(fmt.Sprintf("week %d archived by the start-up catch-up differs from the reports accepted for it before the shutdown", after.History[j].TimeslotOffset), "c03-catchup-week-content")
			break
		}
	}
	for i := len(before.History); i < len(after.History); i++ {
		s.archived[after.History[i].TimeslotOffset] = srv.CoqStats(after.History[i])
	}
	for kx := range s.slotSet {
		if kx.ts < after.Offset {
			delete(s.slotSet, kx)
			delete(s.slotOver, kx)
		}
	}
	s.checkArchive(after, "after restart")
	s.checkAllSlots("after restart")
	return true
}

// ---------------------------------------------------------------- driver

type profile struct {
	name                                                                           string
	report, resigned, replay, hostile, authNew, authDup, authBad, authConflict     int
	authOtherKey, authBanned, regAgain, impact, clock, tick, stats, restart, syncq int
}

// stepCrash runs one step while recording the views around it (C05).
func (s *sim) stepCrash(p profile) {
	if !s.alive || s.w.S == nil {
		return
	}
	pre := s.w.S.VerifSnapshot()
	from := len(s.w.Hops)
	s.step(p)
	if s.alive && s.w.S != nil {
		s.opViews = append(s.opViews, opView{from, len(s.w.Hops), pre, s.w.S.VerifSnapshot()})
	}
}

func stripForView(sn server.VerifSnap) string {
	sn.History = nil
	sn.PublicKey = glow.PublicKey{} // an image taken before server.keys became durable gets fresh keys at recovery
	return viewJSON(sn, false)
}

// recoverCrashImages: start a real server on every captured crash image and check the C05 oracle.
func (s *sim) recoverCrashImages(first server.VerifSnap) {
	w := s.w
	imgs := w.Crashes
	w.Crashes = nil
	// If the source creates/truncates-then-writes a file outside the expected set, the "present but
	// empty" images of the key files are legitimate crash images: synthesize them from real images.
	repo := os.Getenv("VERIF_REPO")
	if repo == "" {
		repo = "/repo"
	}
	if _, bad, err := unexpectedWriteSites(repo); err == nil && len(bad) > 0 && len(imgs) > 0 {
		s.res.Count("crash.synthesized-empty-file")
		base := imgs[len(imgs)-1]
		for i, f := range []string{"server.keys", "gcaPubKey.dat"} {
			// only the files an unexpected site can plausibly be writing
			rel := false
			for _, b := range bad {
				fn := strings.ToLower(b)
				switch {
				case strings.Contains(fn, "gcakey") || strings.Contains(fn, "gcapubkey") || strings.Contains(fn, "registergca"):
					rel = rel || f == "gcaPubKey.dat"
				case strings.Contains(fn, "serverkeys"):
					rel = rel || f == "server.keys"
				default:
					rel = true
				}
			}
			if !rel {
				continue
			}
			d := fmt.Sprintf("%s-empty-%d", base.Dir, i)
			if srv.CopyDir(base.Dir, d) != nil {
				continue
			}
			os.WriteFile(filepath.Join(d, f), nil, 0644)
			started, rsn, err, pan := w.RecoverImage(srv.CrashImage{Dir: d, Now: base.Now, OpSeq: base.OpSeq})
			if pan != "" || !started {
				s.fail(fmt.Sprintf("the source creates or truncates a file and writes it in a second step (%v); with %s present but empty start-up fails: %v %s", bad, f, err, pan), "c05-empty-file:"+f)
			} else if f == "gcaPubKey.dat" && rsn.GCAAvailable && rsn.GCAKey == (glow.PublicKey{}) {
				s.fail(fmt.Sprintf("the source creates or truncates a file and writes it in a second step (%v); with gcaPubKey.dat present but empty the server believes a GCA with the all-zero key is registered", bad), "c05-empty-file:"+f)
			}
		}
	}
	// If a persistence function can put a record on disk in more than one write (static scan), a
	// process death between the writes leaves a record cut short: synthesize such images from the last
	// real image (the file shortened by a few byte counts) and require what every crash image must
	// satisfy first of all -- the server starts.
	if mw, err := multiWriteFuncs(repo); err == nil && len(mw) > 0 && len(imgs) > 0 {
		s.res.Count("crash.synthesized-cut-record")
		fileOf := map[string]string{"saveAllDeviceStats": "allDeviceStats.dat", "saveEquipment": "equipment-authorizations.dat", "saveEquipmentReport": "equipment-reports.dat"}
		for _, m := range mw {
			fn := strings.SplitN(m, ":", 2)[0]
			f, ok := fileOf[fn]
			if !ok {
				continue
			}
			// the last image in which that file is not empty
			var base *srv.CrashImage
			for i := len(imgs) - 1; i >= 0; i-- {
				if st, err := os.Stat(filepath.Join(imgs[i].Dir, f)); err == nil && st.Size() > 0 {
					base = &imgs[i]
					break
				}
			}
			if base == nil {
				continue
			}
			full, _ := os.ReadFile(filepath.Join(base.Dir, f))
			for k, cut := range []int{1, 64, 68, len(full) - 4} {
				if cut <= 0 || cut >= len(full) {
					continue
				}
				d := fmt.Sprintf("%s-cut-%s-%d", base.Dir, fn, k)
				if srv.CopyDir(base.Dir, d) != nil {
					continue
				}
				os.WriteFile(filepath.Join(d, f), full[:len(full)-cut], 0644)
				started, _, err, pan := w.RecoverImage(srv.CrashImage{Dir: d, Now: base.Now, OpSeq: base.OpSeq})
				if pan != "" || !started {
					s.fail(fmt.Sprintf("%s; a process death between its writes leaves %s %d bytes short of a whole record, and start-up on that directory fails: %v %s", m, f, cut, err, pan), "c05-cut-record:"+f)
					break
				}
			}
		}
	}
	for _, ci := range imgs {
		started, got, err, pan := w.RecoverImage(ci)
		s.res.Count("crash.image")
		if pan != "" {
			s.fail("start-up on a crash image panics: "+pan, "c05-start-panics")
			continue
		}
		if !started {
			s.fail(fmt.Sprintf("start-up on a crash image fails: %v", err), "c05-start-fails")
			continue
		}
		// candidates: the view before and after the operation during which the image was taken
		cands := []server.VerifSnap{first}
		for _, ov := range s.opViews {
			if ci.OpSeq >= ov.from && ci.OpSeq <= ov.to {
				cands = []server.VerifSnap{ov.pre, ov.post}
				break
			}
		}
		// finer: the views right before and right after the hop during which the image was taken
		if v, ok := s.hopViews[ci.OpSeq]; ok {
			cands = append(cands, v)
		}
		if v, ok := s.hopViews[ci.OpSeq+1]; ok {
			cands = append(cands, v)
		}
		ok := false
		for _, c := range cands {
			exp := c
			for int64(ci.Now)-int64(exp.Offset) >= 4000 {
				exp = rotateView(exp)
			}
			if stripForView(exp) == stripForView(got) {
				okh := true
				for i := range c.History {
					if i >= len(got.History) || srv.CoqStats(c.History[i]) != srv.CoqStats(got.History[i]) {
						okh = false
					}
				}
				if okh {
					ok = true
					break
				}
			}
		}
		if ok {
			s.res.Count("crash.recovered")
		} else {
			if os.Getenv("VERIF_DEBUG") != "" {
				fmt.Fprintf(os.Stderr, "DEBUG crash image opseq=%d now=%d\n got=%s\n", ci.OpSeq, ci.Now, stripForView(got))
				for i, c := range cands {
					fmt.Fprintf(os.Stderr, " cand%d=%s\n", i, stripForView(c))
				}
				if ci.OpSeq > 0 && ci.OpSeq < len(s.w.Desc) {
					fmt.Fprintf(os.Stderr, " hop=%v prev=%v\n", s.w.Desc[ci.OpSeq], s.w.Desc[ci.OpSeq-1])
				}
			}
			s.fail("the state recovered from a crash image is neither the state before nor the state after the interrupted operation", "c05-partial-state")
		}
	}
}

func (s *sim) step(p profile) {
	tot := p.report + p.resigned + p.replay + p.hostile + p.authNew + p.authDup + p.authBad + p.authConflict + p.authOtherKey + p.authBanned + p.regAgain + p.impact + p.clock + p.tick + p.stats + p.restart + p.syncq
	x := s.r.Intn(tot)
	pick := func(w int) bool {
		if x < w {
			return true
		}
		x -= w
		return false
	}
	switch {
	case pick(p.report):
		s.report("report")
	case pick(p.resigned):
		s.report("resigned")
	case pick(p.replay):
		s.report("replay")
	case pick(p.hostile):
		s.hostileDatagram()
	case pick(p.authNew):
		s.authorizeVariant("new")
	case pick(p.authDup):
		s.authorizeVariant("duplicate")
	case pick(p.authBad):
		s.authorizeVariant([]string{"bad-signature", "foreign-signature"}[s.r.Intn(2)])
	case pick(p.authConflict):
		s.authorizeVariant("conflict-field")
	case pick(p.authOtherKey):
		s.authorizeVariant("conflict-other-key")
	case pick(p.authBanned):
		s.authorizeVariant("banned-id")
	case pick(p.regAgain):
		s.register([]string{"valid", "wrong-signer", "altered-key", "other-valid", "by-gca", "prefixless"}[s.r.Intn(6)])
	case pick(p.impact):
		s.impactRound(nil)
	case pick(p.clock):
		s.advanceClock()
	case pick(p.tick):
		s.rotateTick()
	case pick(p.stats):
		kinds := []string{"archived", "live1", "live2", "future", "misaligned", "misaligned-archived", "huge"}
		s.stats(kinds[s.r.Intn(len(kinds))], s.r.Chance(35))
	case pick(p.restart):
		nn := s.w.Now
		if s.r.Chance(40) {
			nn += []uint32{100, 3000, 4100, 6200, 8300}[s.r.Intn(5)]
		}
		s.restart(nn)
		if s.alive && s.r.Chance(30) {
			s.restart(s.w.Now) // repeated restart
		}
	case pick(p.syncq):
		live := s.liveDevices()
		if len(live) > 0 {
			s.w.Sync(live[s.r.Intn(len(live))].ID, true)
		}
	}
}

// finish records the history and closes the world (CheckInvariants runs inside Close).
func (s *sim) finish(items *[]string) {
	if s.crash && s.closedTerm == "" && s.w.Failed == "" {
		var first server.VerifSnap
		if len(s.opViews) > 0 {
			first = s.opViews[0].pre
		}
		if s.alive && s.w.S != nil {
			s.w.SnapHop()
		}
		if p := s.w.CloseServer(); p != "" {
			s.fail("server consistency check (CheckInvariants) panics at shutdown: "+p, "checkinvariants-panic")
		}
		s.recoverCrashImages(first)
		finishWorld(s.res, s.w, items)
		return
	}
	if s.closedTerm != "" {
		*items = append(*items, s.closedTerm)
		s.w.Close()
		return
	}
	if s.alive && s.w.S != nil && s.w.Failed == "" {
		s.w.SnapHop()
	}
	finishWorld(s.res, s.w, items)
}

var _ = hex.EncodeToString
var _ = bytes.Equal

func srvYieldCount(p string) int64 { return srv.YieldCount(p) }
