(* C06, last clause: "... and the server's own consistency check keeps passing".

   [check_invariants] (Server.v) models GCAServer.CheckInvariants (server/testing.go).  This
   file proves that it returns [true] in every state reachable from a first start, along
   EVERY history (restarts included), PROVIDED no accepted authorization for a fresh device
   id carries the public key of another live device ([keys_ok]).  Without that premise the
   statement is false -- known finding K4 -- and the refutation is [key_reuse_refuted].

   The invariant [CheckOK] has a representation part (the association lists [equipment] and
   [index] hold every key at most once: preserved by every operation unconditionally, and
   established by start-up replay from the empty maps) and an extensional part (every device's
   key is mapped to the device's id by the index; the converse direction is MemInv's i_idx). *)
From Coq Require Import ZArith List Bool Lia.
From GCA Require Import Wrap Bytes Bytes_lemmas Codec Amap Amap_lemmas Timeslot Server ServerInv ServerInv_lemmas
                        ServerInv2_lemmas ServerC02_lemmas ServerDisk ServerDisk_lemmas ServerDiskInv_lemmas
                        ServerRestart_lemmas ServerReach_lemmas ServerAuth_lemmas ServerFull_lemmas.
Import ListNotations.
Open Scope Z_scope.
Set Default Proof Using "Type".
Notation length := List.length.

(* ------------------------------------------------------------------ association lists *)
Definition bkeys {V} (m : list (bytes * V)) : list bytes := map fst m.

Section MapRepr.
  Context {V : Type}.

  Lemma zkeys_zdel_In k k' (m : list (Z * V)) : In k' (zkeys (zdel k m)) -> In k' (zkeys m) /\ k' <> k.
  Proof.
    induction m as [|[k2 v] m IH]; cbn [zdel zkeys map fst]; [intros []|].
    destruct (Z.eqb_spec k k2) as [->|N].
    - intros H. destruct (IH H) as [A B]. split; [right; exact A | exact B].
    - cbn [map fst]. intros [E|H].
      + subst k'. split; [left; reflexivity | congruence].
      + destruct (IH H) as [A B]. split; [right; exact A | exact B].
  Qed.

  Lemma NoDup_zdel k (m : list (Z * V)) : NoDup (zkeys m) -> NoDup (zkeys (zdel k m)).
  Proof.
    induction m as [|[k2 v] m IH]; cbn [zdel zkeys map fst]; [intros H; exact H|].
    intros ND. inversion ND as [|? ? NI ND']; subst.
    destruct (Z.eqb_spec k k2) as [->|N]; [apply IH; exact ND'|].
    cbn [map fst]. constructor; [|apply IH; exact ND'].
    intros H. apply zkeys_zdel_In in H. apply NI. exact (proj1 H).
  Qed.

  Lemma NoDup_zset k v (m : list (Z * V)) : NoDup (zkeys m) -> NoDup (zkeys (zset k v m)).
  Proof.
    intros ND. unfold zset. cbn [zkeys map fst]. constructor; [|apply NoDup_zdel; exact ND].
    intros H. apply zkeys_zdel_In in H. destruct H as [_ H]. apply H; reflexivity.
  Qed.

  Lemma NoDup_In_zget k v (m : list (Z * V)) : NoDup (zkeys m) -> In (k, v) m -> zget k m = Some v.
  Proof.
    induction m as [|[k2 v2] m IH]; cbn [zkeys map fst zget]; [intros _ []|].
    intros ND [E|H]; inversion ND as [|? ? NI ND']; subst.
    - inversion E; subst. rewrite Z.eqb_refl. reflexivity.
    - destruct (Z.eqb_spec k k2) as [->|N]; [|apply IH; assumption].
      exfalso. apply NI. change k2 with (fst (k2, v)). apply in_map. exact H.
  Qed.

  Lemma bkeys_bdel_In k k' (m : list (bytes * V)) : In k' (bkeys (bdel k m)) -> In k' (bkeys m) /\ k' <> k.
  Proof.
    induction m as [|[k2 v] m IH]; cbn [bdel bkeys map fst]; [intros []|].
    destruct (bytes_eqb k k2) eqn:E.
    - intros H. destruct (IH H) as [A B]. split; [right; exact A | exact B].
    - cbn [map fst]. intros [E2|H].
      + subst k'. split; [left; reflexivity|]. intros ->. rewrite bytes_eqb_refl in E. discriminate.
      + destruct (IH H) as [A B]. split; [right; exact A | exact B].
  Qed.

  Lemma NoDup_bdel k (m : list (bytes * V)) : NoDup (bkeys m) -> NoDup (bkeys (bdel k m)).
  Proof.
    induction m as [|[k2 v] m IH]; cbn [bdel bkeys map fst]; [intros H; exact H|].
    intros ND. inversion ND as [|? ? NI ND']; subst.
    destruct (bytes_eqb k k2); [apply IH; exact ND'|].
    cbn [map fst]. constructor; [|apply IH; exact ND'].
    intros H. apply bkeys_bdel_In in H. apply NI. exact (proj1 H).
  Qed.

  Lemma NoDup_bset k v (m : list (bytes * V)) : NoDup (bkeys m) -> NoDup (bkeys (bset k v m)).
  Proof.
    intros ND. unfold bset. cbn [bkeys map fst]. constructor; [|apply NoDup_bdel; exact ND].
    intros H. apply bkeys_bdel_In in H. destruct H as [_ H]. apply H; reflexivity.
  Qed.

  Lemma bget_In k v (m : list (bytes * V)) : bget k m = Some v -> In (k, v) m.
  Proof.
    induction m as [|[k2 v2] m IH]; cbn [bget]; [discriminate|].
    destruct (bytes_eqb k k2) eqn:E; intros H.
    - apply bytes_eqb_eq in E. inversion H; subst. left; reflexivity.
    - right. apply IH. exact H.
  Qed.

  Lemma NoDup_In_bget k v (m : list (bytes * V)) : NoDup (bkeys m) -> In (k, v) m -> bget k m = Some v.
  Proof.
    induction m as [|[k2 v2] m IH]; cbn [bkeys map fst bget]; [intros _ []|].
    intros ND [E|H]; inversion ND as [|? ? NI ND']; subst.
    - inversion E; subst. rewrite bytes_eqb_refl. reflexivity.
    - destruct (bytes_eqb k k2) eqn:E; [|apply IH; assumption].
      apply bytes_eqb_eq in E. subst k2.
      exfalso. apply NI. change k with (fst (k, v)). apply in_map. exact H.
  Qed.
End MapRepr.

Lemma NoDup_map_inj_on {A B} (f : A -> B) (l : list A) :
  NoDup l -> (forall x y, In x l -> In y l -> f x = f y -> x = y) -> NoDup (map f l).
Proof.
  induction l as [|x l IH]; cbn [map]; intros ND Inj; [constructor|].
  inversion ND as [|? ? NI ND']; subst. constructor.
  - intros H. apply in_map_iff in H. destruct H as (y & E & Hy).
    assert (y = x) by (apply Inj; [right; exact Hy | left; reflexivity | exact E]). subst y. contradiction.
  - apply IH; [exact ND'|]. intros a b Ha Hb. apply Inj; right; assumption.
Qed.

Lemma NoDup_of_map {A B} (f : A -> B) (l : list A) : NoDup (map f l) -> NoDup l.
Proof.
  induction l as [|x l IH]; cbn [map]; intros ND; [constructor|].
  inversion ND as [|? ? NI ND']; subst. constructor; [|apply IH; exact ND'].
  intros H. apply NI. apply in_map. exact H.
Qed.

(* ------------------------------------------------------------------ the invariant *)
Definition Repr (m0 : mem) : Prop := NoDup (zkeys (equipment m0)) /\ NoDup (bkeys (index m0)).

Record CheckM (m0 : mem) : Prop := {
  c_eq_nodup : NoDup (zkeys (equipment m0));
  c_idx_nodup : NoDup (bkeys (index m0));
  c_key_idx : forall id a, zget id (equipment m0) = Some a -> bget (a_key a) (index m0) = Some id }.

Definition CheckOK (st : state) : Prop := CheckM (mm st).

(* the same loop as the anonymous [fix] inside [keys_distinct] *)
Fixpoint kd_go (l : list (Z * auth)) (seen : list bytes) : bool :=
  match l with
  | [] => true
  | (_, a) :: l' => negb (existsb (bytes_eqb (a_key a)) seen) && kd_go l' (a_key a :: seen)
  end.
Lemma keys_distinct_go l : keys_distinct l = kd_go l [].
Proof. reflexivity. Qed.

Definition dev_key (p : Z * auth) : bytes := a_key (snd p).

Lemma kd_go_true l : forall seen,
  NoDup (map dev_key l) -> (forall k, In k (map dev_key l) -> ~ In k seen) -> kd_go l seen = true.
Proof.
  induction l as [|[id a] l IH]; intros seen ND Dis; cbn [kd_go]; [reflexivity|].
  cbn [map] in ND, Dis. unfold dev_key at 1 in ND. cbn [snd] in ND.
  inversion ND as [|? ? NI ND']; subst.
  destruct (existsb (bytes_eqb (a_key a)) seen) eqn:E.
  - exfalso. apply existsb_exists in E. destruct E as (x & Hx & Ex). apply bytes_eqb_eq in Ex. subst x.
    apply (Dis (a_key a)); [left; reflexivity | exact Hx].
  - cbn [negb andb]. apply IH; [exact ND'|].
    intros k Hk [E1|H1].
    + subst k. contradiction.
    + apply (Dis k); [right; exact Hk | exact H1].
Qed.

Lemma device_keys_nodup m0 : CheckM m0 -> NoDup (map dev_key (equipment m0)).
Proof.
  intros [N1 N2 KI]. apply NoDup_map_inj_on; [apply (NoDup_of_map fst); exact N1|].
  intros [i1 a1] [i2 a2] H1 H2 E. unfold dev_key in E. cbn [snd] in E.
  pose proof (NoDup_In_zget _ _ _ N1 H1) as Q1. pose proof (NoDup_In_zget _ _ _ N1 H2) as Q2.
  pose proof (KI _ _ Q1) as B1. pose proof (KI _ _ Q2) as B2. rewrite E in B1. rewrite B1 in B2.
  inversion B2; subst i2. rewrite Q1 in Q2. inversion Q2; subst. reflexivity.
Qed.

Lemma tables_same_length m0 : CheckM m0 -> MemInv m0 -> length (equipment m0) = length (index m0).
Proof.
  intros C I. pose proof (device_keys_nodup m0 C) as NK. destruct C as [N1 N2 KI].
  apply Nat.le_antisymm.
  - rewrite <- (map_length dev_key (equipment m0)), <- (map_length fst (index m0)).
    apply NoDup_incl_length; [exact NK|].
    intros k Hk. apply in_map_iff in Hk. destruct Hk as ([id a] & E & Hp). unfold dev_key in E. cbn [snd] in E. subst k.
    pose proof (KI _ _ (NoDup_In_zget _ _ _ N1 Hp)) as B. apply bget_In in B.
    change (a_key a) with (fst (a_key a, id)). apply in_map. exact B.
  - rewrite <- (map_length snd (index m0)), <- (map_length fst (equipment m0)).
    apply NoDup_incl_length.
    + apply NoDup_map_inj_on; [apply (NoDup_of_map fst); exact N2|].
      intros [k1 i1] [k2 i2] H1 H2 E. cbn [snd] in E. subst i2.
      pose proof (NoDup_In_bget _ _ _ N2 H1) as B1. pose proof (NoDup_In_bget _ _ _ N2 H2) as B2.
      destruct (i_idx _ I _ _ B1) as (a1 & Q1 & E1). destruct (i_idx _ I _ _ B2) as (a2 & Q2 & E2).
      rewrite Q1 in Q2. inversion Q2; subst a2. congruence.
    + intros id Hid. apply in_map_iff in Hid. destruct Hid as ([k i] & E & Hp). cbn [snd] in E. subst i.
      pose proof (NoDup_In_bget _ _ _ N2 Hp) as B. destruct (i_idx _ I _ _ B) as (a & Q & _).
      apply zget_In in Q. change id with (fst (id, a)). apply in_map. exact Q.
Qed.

(* CheckOK (with MemInv) implies that the executable consistency check passes *)
Theorem check_ok_passes st : CheckOK st -> MemInv (mm st) -> check_invariants st = true.
Proof.
  intros C I. unfold check_invariants.
  rewrite (tables_same_length _ C I), Nat.eqb_refl. cbn [andb].
  rewrite keys_distinct_go, (kd_go_true _ [] (device_keys_nodup _ C)) by (intros k _ []). cbn [andb].
  apply forallb_forall. intros [id a] Hp. cbn [fst snd].
  pose proof (NoDup_In_zget _ _ _ (c_eq_nodup _ C) Hp) as Q.
  rewrite (c_key_idx _ C _ _ Q), Z.eqb_refl. cbn [andb].
  rewrite (i_dom_imp _ I). eapply zget_zmem; exact Q.
Qed.

(* ------------------------------------------------------------------ the representation part:
   preserved by the two table updates unconditionally, hence by replay from empty maps *)
Lemma repr_add m0 a : Repr m0 -> Repr (add_device m0 a).
Proof. intros [A B]. split; cbn [add_device equipment index]; [apply NoDup_zset | apply NoDup_bset]; assumption. Qed.

Lemma repr_ban m0 id cur : Repr m0 -> Repr (ban_device m0 id cur).
Proof.
  intros [A B]. split; cbn [ban_device equipment index]; [apply NoDup_zdel; exact A|].
  destruct (bget (a_key cur) (index m0)) as [i|]; [|exact B].
  destruct (i =? id); [apply NoDup_bdel; exact B | exact B].
Qed.

Lemma repr_replay_auths l : forall m0, Repr m0 -> Repr (replay_auths m0 l).
Proof.
  induction l as [|a l IH]; intros m0 R; cbn [replay_auths]; [exact R|].
  destruct (zin (a_id a) (bans m0)); [apply IH; exact R|].
  destruct (zget (a_id a) (equipment m0)) as [cur|]; [destruct (auth_eqb cur a)|].
  - apply IH; exact R.
  - apply IH, repr_ban; exact R.
  - apply IH, repr_add; exact R.
Qed.

(* ------------------------------------------------------------------ the extensional part *)
(* the authorization's key is not in use by a device with another id *)
Definition key_ok (m0 : mem) (a : auth) : Prop :=
  forall id, bget (a_key a) (index m0) = Some id -> id = a_id a.
Definition key_okb (m0 : mem) (a : auth) : bool :=
  match bget (a_key a) (index m0) with Some id => id =? a_id a | None => true end.
Lemma key_okb_ok m0 a : key_okb m0 a = true <-> key_ok m0 a.
Proof.
  unfold key_okb, key_ok. destruct (bget (a_key a) (index m0)) as [i|].
  - split; [intros E id H; inversion H; subst; apply Z.eqb_eq; exact E | intros H; apply Z.eqb_eq, H; reflexivity].
  - split; [intros _ id H; discriminate | reflexivity].
Qed.

Lemma check_add m0 a : CheckM m0 -> key_ok m0 a -> CheckM (add_device m0 a).
Proof.
  intros C K. destruct (repr_add m0 a (conj (c_eq_nodup _ C) (c_idx_nodup _ C))) as [A B].
  constructor; [exact A | exact B|].
  intros id a' Q. cbn [add_device equipment index] in *. rewrite zget_zset in Q. rewrite bget_bset.
  destruct (Z.eqb_spec id (a_id a)) as [->|N].
  - inversion Q; subst a'. rewrite bytes_eqb_refl. reflexivity.
  - pose proof (c_key_idx _ C _ _ Q) as Bq.
    destruct (bytes_eqb (a_key a') (a_key a)) eqn:E; [|exact Bq].
    apply bytes_eqb_eq in E. rewrite E in Bq. exfalso. apply N. apply K. exact Bq.
Qed.

(* a ban needs no premise: the banned device's key points at the banned id, the entry goes *)
Lemma check_ban m0 id cur : CheckM m0 -> zget id (equipment m0) = Some cur -> CheckM (ban_device m0 id cur).
Proof.
  intros C Qc. destruct (repr_ban m0 id cur (conj (c_eq_nodup _ C) (c_idx_nodup _ C))) as [A B].
  constructor; [exact A | exact B|].
  intros i a' Q. cbn [ban_device equipment index] in *. rewrite zget_zdel in Q.
  destruct (Z.eqb_spec i id) as [->|N]; [discriminate|].
  pose proof (c_key_idx _ C _ _ Q) as Bq. rewrite (c_key_idx _ C _ _ Qc), Z.eqb_refl.
  rewrite bget_bdel. destruct (bytes_eqb (a_key a') (a_key cur)) eqn:E; [|exact Bq].
  apply bytes_eqb_eq in E. rewrite E, (c_key_idx _ C _ _ Qc) in Bq. inversion Bq. congruence.
Qed.

Lemma check_ext m1 m2 : Repr m1 -> (forall id, zget id (equipment m1) = zget id (equipment m2)) ->
  (forall k, bget k (index m1) = bget k (index m2)) -> CheckM m2 -> CheckM m1.
Proof.
  intros [A B] E1 E2 C. constructor; [exact A | exact B|].
  intros id a Q. rewrite E1 in Q. rewrite E2. apply (c_key_idx _ C _ _ Q).
Qed.

Lemma check_same m1 m2 : equipment m1 = equipment m2 -> index m1 = index m2 -> CheckM m2 -> CheckM m1.
Proof. intros E1 E2 [A B K]. constructor; rewrite ?E1, ?E2; assumption. Qed.

Lemma check_empty m0 : equipment m0 = [] -> index m0 = [] -> CheckM m0.
Proof. intros E1 E2. constructor; rewrite ?E1, ?E2; cbn; try constructor. intros id a H. discriminate. Qed.

Section CheckInv.
  Variable verify : bytes -> bytes -> bytes -> bool.
  Variable sign : bytes -> bytes -> bytes.
  Variable stats_sb : list devstat -> Z -> bytes.
  Local Notation step := (step verify sign stats_sb).
  Local Notation run := (run verify sign stats_sb).
  Local Notation catch_up := (catch_up sign stats_sb).
  Local Notation Inv := (Inv verify).

  (* ---- operations that never touch the two tables *)
  Lemma integrate_tables st r :
    equipment (mm (fst (integrate st r))) = equipment (mm st) /\ index (mm (fst (integrate st r))) = index (mm st).
  Proof.
    unfold integrate.
    destruct (r_ts r <? offset (mm st)); [split; reflexivity|].
    destruct (u32 (offset (mm st) + window_len) <=? r_ts r); [split; reflexivity|].
    destruct (zget (r_id r) (reports (mm st))); [|split; reflexivity].
    destruct (window_len <=? u32 (r_ts r - offset (mm st))); [split; reflexivity|].
    destruct (r_p (getslot _ _) =? 1); [split; reflexivity|].
    destruct (report_eqb _ r); split; reflexivity.
  Qed.

  Lemma rotate_tables st :
    equipment (mm (fst (rotate sign stats_sb st))) = equipment (mm st) /\
    index (mm (fst (rotate sign stats_sb st))) = index (mm st).
  Proof. unfold rotate. destruct (build_stats sign stats_sb (mm st) (offset (mm st))); split; reflexivity. Qed.

  Lemma catch_up_tables fuel : forall st now,
    equipment (mm (fst (catch_up fuel st now))) = equipment (mm st) /\
    index (mm (fst (catch_up fuel st now))) = index (mm st).
  Proof.
    induction fuel as [|f IH]; intros st now; cbn [Server.catch_up];
      destruct (i64 now - i64 (offset (mm st)) <? catchup_bound); try (split; reflexivity).
    destruct (rotate_tables st) as [E1 E2].
    destruct (rotate sign stats_sb st) as [st' o]. cbn [fst] in E1, E2.
    destruct o; cbn [fst]; try (split; assumption).
    destruct (IH st' now) as [F1 F2]. split; congruence.
  Qed.

  Lemma replay_reports_tables l : forall st st',
    replay_reports verify st l = LOk st' ->
    equipment (mm st') = equipment (mm st) /\ index (mm st') = index (mm st).
  Proof.
    induction l as [|r l IH]; intros st st' H; cbn [replay_reports] in H.
    - inversion H; subst. split; reflexivity.
    - destruct (zget (r_id r) (equipment (mm st))) as [a|].
      + destruct (negb (verify (a_key a) (report_signing_bytes r) (r_sig r))); [discriminate|].
        destruct (integrate_tables st r) as [E1 E2].
        destruct (integrate st r) as [st1 o]. cbn [fst] in E1, E2.
        destruct o; try discriminate. destruct (IH _ _ H) as [F1 F2]. split; congruence.
      + destruct (zin (r_id r) (bans (mm st))); [apply IH; exact H | discriminate].
  Qed.

  (* whatever the directory holds: what start-up builds has duplicate-free tables *)
  Lemma load_repr dk fresh st' : load verify dk fresh = LOk st' -> Repr (mm st').
  Proof.
    unfold load. destruct (d_temp dk) as [tk|]; [|discriminate].
    destruct (negb (forallb _ _)); [discriminate|]. intros H.
    apply replay_reports_tables in H. cbn [mm] in H. destruct H as [E1 E2].
    unfold Repr. rewrite E1, E2. apply repr_replay_auths. split; cbn; constructor.
  Qed.

  Lemma step_tables_fixed st o : (forall a, o <> OpAuthorize a) -> (forall f n, o <> OpRestart f n) ->
    equipment (mm (fst (step st o))) = equipment (mm st) /\ index (mm (fst (step st o))) = index (mm st).
  Proof.
    intros NA NR. destruct o as [now d|k s|a|tso|now|i ts v|fresh now]; cbn [Server.step].
    - unfold udp_receive. destruct (Nat.ltb (length d) 80); [split; reflexivity|].
      unfold handle_report. destruct (parse_report verify st (firstn 80 d)) as [r|]; [|split; reflexivity].
      destruct (negb _); [split; reflexivity|]. destruct (_ || _); [split; reflexivity|].
      apply integrate_tables.
    - unfold register. destruct (gca_avail (mm st)); [split; reflexivity|]. destruct (negb _); split; reflexivity.
    - exfalso. eapply NA; reflexivity.
    - unfold stats_query. destruct (negb _); [split; reflexivity|].
      destruct (tso <? _); [destruct (nth_error _ _); split; reflexivity|].
      destruct (build_stats _ _ _ _); split; reflexivity.
    - unfold rotate_tick. destruct (_ <? _); [apply rotate_tables | split; reflexivity].
    - unfold impact_write. destruct (_ && _); [|split; reflexivity]. destruct (zget i _); split; reflexivity.
    - exfalso. eapply NR; reflexivity.
  Qed.

  (* ---- authorizations: the premise is needed only when a NEW device is accepted *)
  Lemma save_equipment_check st a :
    CheckM (mm st) -> (snd (save_equipment st a) = Accepted true -> key_ok (mm st) a) ->
    CheckM (mm (fst (save_equipment st a))).
  Proof.
    intros C K. unfold save_equipment in *.
    destruct (zin (a_id a) (bans (mm st))); [exact C|].
    destruct (zget (a_id a) (equipment (mm st))) as [cur|] eqn:Q.
    - destruct (auth_go_eq cur a); [exact C|]. destruct (d_auths (dd st)); [|exact C].
      cbn [fst mm]. apply check_ban; assumption.
    - destruct (d_auths (dd st)); [|exact C]. cbn [fst snd mm] in *. apply check_add; [exact C | apply K; reflexivity].
  Qed.

  Lemma authorize_check st a :
    CheckM (mm st) -> (snd (authorize verify st a) = Accepted true -> key_ok (mm st) a) ->
    CheckM (mm (fst (authorize verify st a))).
  Proof.
    intros C K. unfold authorize in *. destruct (negb (gca_avail (mm st))); [exact C|].
    destruct (negb (verify _ _ _)); [exact C|]. apply save_equipment_check; assumption.
  Qed.

  (* an authorization that is not accepted as a new device never adds a key *)
  Lemma authorize_new_only st a : snd (authorize verify st a) = Accepted true ->
    zget (a_id a) (equipment (mm st)) = None /\ mm (fst (authorize verify st a)) = add_device (mm st) a.
  Proof.
    unfold authorize. destruct (negb (gca_avail (mm st))); [discriminate|].
    destruct (negb (verify _ _ _)); [discriminate|]. unfold save_equipment.
    destruct (zin (a_id a) (bans (mm st))); [discriminate|].
    destruct (zget (a_id a) (equipment (mm st))) as [cur|].
    - destruct (auth_go_eq cur a); [discriminate|]. destruct (d_auths (dd st)); discriminate.
    - destruct (d_auths (dd st)); [|discriminate]. intros _. split; reflexivity.
  Qed.

  (* ---- restart: the reloaded tables are duplicate-free by construction and extensionally
     equal to the live ones (mem_equiv covers both the equipment map and the key index) *)
  Lemma restart_check st fresh now : Inv st -> clock_ok now -> CheckM (mm st) ->
    CheckM (mm (fst (step st (OpRestart fresh now)))).
  Proof.
    intros I C K. cbn [Server.step].
    destruct (restart_spec verify sign stats_sb st fresh now I C) as (st1 & L & ME & _ & E & _ & _). rewrite E.
    destruct (catch_up_tables (catchup_fuel now) st1 now) as [E1 E2].
    apply (check_same _ (mm st1) E1 E2).
    apply (check_ext _ (mm st)); [exact (load_repr _ _ _ L) | exact (e_eq _ _ ME) | exact (e_idx _ _ ME) | exact K].
  Qed.

  (* ---- the premise: evaluated along the run *)
  Definition key_pre (st : state) (o : op) : Prop :=
    match o with
    | OpAuthorize a => snd (step st o) = Accepted true -> key_ok (mm st) a
    | _ => True
    end.
  Fixpoint keys_ok (st : state) (ops : list op) : Prop :=
    match ops with
    | [] => True
    | o :: r => key_pre st o /\ keys_ok (fst (step st o)) r
    end.

  (* executable version of the premise *)
  Definition key_preb (st : state) (o : op) : bool :=
    match o with
    | OpAuthorize a => match snd (step st o) with Accepted true => key_okb (mm st) a | _ => true end
    | _ => true
    end.
  Fixpoint keys_okb (st : state) (ops : list op) : bool :=
    match ops with
    | [] => true
    | o :: r => key_preb st o && keys_okb (fst (step st o)) r
    end.
  Lemma key_preb_ok st o : key_preb st o = true <-> key_pre st o.
  Proof.
    destruct o as [now d|k s|a|tso|now|i ts v|fresh now]; cbn [key_preb key_pre]; try tauto.
    destruct (snd (step st (OpAuthorize a))) as [|[|]| | |];
      try (split; [intros _ H; discriminate | reflexivity]).
    rewrite key_okb_ok. tauto.
  Qed.
  Lemma keys_okb_ok ops : forall st, keys_okb st ops = true <-> keys_ok st ops.
  Proof.
    induction ops as [|o ops IH]; intros st; cbn [keys_okb keys_ok]; [tauto|].
    rewrite andb_true_iff, key_preb_ok, IH. tauto.
  Qed.

  (* the simpler, stronger premise (every authorization, accepted or not) implies it *)
  Lemma key_ok_pre st a : key_ok (mm st) a -> key_pre st (OpAuthorize a).
  Proof. intros K _. exact K. Qed.

  (* ---- one step, every history *)
  Theorem step_check st o : Inv st -> op_ok o -> CheckOK st -> key_pre st o -> CheckOK (fst (step st o)).
  Proof.
    unfold CheckOK. intros I K C P.
    destruct o as [now d|k s|a|tso|now|i ts v|fresh now];
      try (match goal with |- CheckM (mm (fst (Server.step _ _ _ st ?o))) =>
             destruct (step_tables_fixed st o) as [E1 E2];
               [intros ?; discriminate | intros ? ?; discriminate | apply (check_same _ _ E1 E2); exact C] end).
    - cbn [Server.step key_pre] in *. apply authorize_check; assumption.
    - apply restart_check; assumption.
  Qed.

  Theorem run_check ops : forall st, Inv st -> CheckOK st -> Forall op_ok ops -> keys_ok st ops ->
    CheckOK (run st ops).
  Proof.
    induction ops as [|o ops IH]; intros st I C F P; [exact C|].
    inversion F as [|? ? K F']; subst. destruct P as [P P']. rewrite run_cons.
    apply IH; [apply (step_inv verify sign stats_sb st o I K) | apply step_check; assumption | exact F' | exact P'].
  Qed.

  (* ---- C06, last clause: the consistency check passes after every history *)
  Theorem consistency_check_passes ops st : Inv st -> CheckOK st -> Forall op_ok ops -> keys_ok st ops ->
    CheckOK (run st ops) /\ check_invariants (run st ops) = true.
  Proof.
    intros I C F P. pose proof (run_check ops st I C F P) as C'.
    split; [exact C'|]. apply check_ok_passes; [exact C'|].
    apply (run_inv verify sign stats_sb ops st I F).
  Qed.

  Lemma Forall_firstn_ {A} (P : A -> Prop) (l : list A) : forall n, Forall P l -> Forall P (firstn n l).
  Proof.
    induction l as [|x l IH]; intros [|n] F; cbn [firstn]; try constructor.
    - inversion F; assumption.
    - apply IH. inversion F; assumption.
  Qed.
  Lemma keys_ok_firstn ops : forall st n, keys_ok st ops -> keys_ok st (firstn n ops).
  Proof.
    induction ops as [|o ops IH]; intros st [|n] P; cbn [firstn keys_ok]; try exact I.
    destruct P as [P P']. split; [exact P | apply IH; exact P'].
  Qed.

  (* "keeps passing": at every point of the history, not only at its end *)
  Theorem consistency_check_always ops st n : Inv st -> CheckOK st -> Forall op_ok ops -> keys_ok st ops ->
    check_invariants (run st (firstn n ops)) = true.
  Proof.
    intros I C F P.
    apply (consistency_check_passes (firstn n ops) st I C (Forall_firstn_ _ _ n F) (keys_ok_firstn ops st n P)).
  Qed.

  (* ---- from the first start: so the theorem covers every reachable state *)
  Theorem first_start_check tk fresh now st0 :
    load verify (fresh_disk tk) fresh = LOk st0 ->
    CheckOK (fst (catch_up (catchup_fuel now) st0 now)).
  Proof.
    intros L. destruct (catch_up_tables (catchup_fuel now) st0 now) as [E1 E2].
    cbn in L. inversion L; subst st0; clear L. cbn [mm equipment index] in E1, E2.
    apply check_empty; assumption.
  Qed.

  Theorem consistency_check_first_start tk fresh now st0 ops :
    clock_ok now -> load verify (fresh_disk tk) fresh = LOk st0 ->
    let s := fst (catch_up (catchup_fuel now) st0 now) in
    Forall op_ok ops -> keys_ok s ops ->
    CheckOK (run s ops) /\ check_invariants (run s ops) = true.
  Proof.
    intros C L s F P. apply consistency_check_passes; [|apply first_start_check with (tk := tk) (fresh := fresh); exact L | exact F | exact P].
    apply (first_start_full verify sign stats_sb tk fresh now st0 C L).
  Qed.
End CheckInv.

(* ------------------------------------------------------------------ concrete histories *)
Definition vtrue (_ _ _ : bytes) : bool := true.          (* every signature verifies *)
Definition csign (_ _ : bytes) : bytes := [].
Definition csb (_ : list devstat) (_ : Z) : bytes := [].

Definition ex_tk : bytes := [].
Definition ex_fresh : bytes * bytes := ([], []).
Definition ex_key (b : Byte.byte) : bytes := pad 32 [b].
Definition ex_auth (id : Z) (key : bytes) (cap : Z) : auth :=
  {| a_id := id; a_key := key; a_lat := 0; a_long := 0; a_cap := cap; a_debt := 0;
     a_exp := 0; a_init := 0; a_fee := 0; a_sig := [] |}.

(* the state right after the first start on a fresh directory, at timeslot 10 *)
Definition ex_dummy : state :=
  {| mm := {| equipment := []; index := []; bans := []; reports := []; impact := []; offset := 0; history := [];
              gca := []; gca_avail := false; tempkey := []; skeys := ([], []) |};
     dd := fresh_disk [] |}.
Definition ex_loaded : state :=
  match load vtrue (fresh_disk ex_tk) ex_fresh with LOk s => s | _ => ex_dummy end.
Definition ex_first : state := fst (catch_up csign csb (catchup_fuel 10) ex_loaded 10).

Lemma ex_loaded_ok : load vtrue (fresh_disk ex_tk) ex_fresh = LOk ex_loaded.
Proof. reflexivity. Qed.
Lemma ex_clock : clock_ok 10.
Proof. unfold clock_ok. lia. Qed.
Lemma ex_first_inv : Inv vtrue ex_first.
Proof. exact (proj1 (first_start_full vtrue csign csb ex_tk ex_fresh 10 ex_loaded ex_clock ex_loaded_ok)). Qed.
Lemma ex_auth_finite id key cap : auth_finite (ex_auth id key cap).
Proof. split; reflexivity. Qed.

(* ---- K4: a GCA-signed authorization for a FRESH id that carries the key of ANOTHER LIVE
   device is accepted, overwrites that device's key->id entry, and the check fails *)
Definition k4_ops : list (op) :=
  [OpRegister (ex_key Byte.x01) [];
   OpAuthorize (ex_auth 1 (ex_key Byte.x0a) 1000);
   OpAuthorize (ex_auth 2 (ex_key Byte.x0a) 1000)].

Lemma k4_ops_ok : Forall op_ok k4_ops.
Proof.
  unfold k4_ops. constructor; [exact I|]. constructor; [apply ex_auth_finite|].
  constructor; [apply ex_auth_finite | constructor].
Qed.

Theorem key_reuse_refuted :
  exists tk fresh now st0 ops,
    clock_ok now /\ load vtrue (fresh_disk tk) fresh = LOk st0 /\
    let s := fst (catch_up csign csb (catchup_fuel now) st0 now) in
    Forall op_ok ops /\
    outs vtrue csign csb s ops = [Accepted true; Accepted true; Accepted true] /\
    Inv vtrue (run vtrue csign csb s ops) /\
    ~ keys_ok vtrue csign csb s ops /\
    check_invariants (run vtrue csign csb s ops) = false.
Proof.
  exists ex_tk, ex_fresh, 10, ex_loaded, k4_ops.
  split; [exact ex_clock|]. split; [exact ex_loaded_ok|]. cbv zeta. fold ex_first.
  split; [exact k4_ops_ok|].
  split; [vm_compute; reflexivity|].
  split; [apply (run_inv vtrue csign csb k4_ops ex_first ex_first_inv k4_ops_ok)|].
  assert (F : check_invariants (run vtrue csign csb ex_first k4_ops) = false) by (vm_compute; reflexivity).
  split; [|exact F].
  intros P.
  destruct (consistency_check_passes vtrue csign csb k4_ops ex_first ex_first_inv
              (first_start_check vtrue csign csb ex_tk ex_fresh 10 ex_loaded ex_loaded_ok) k4_ops_ok P) as [_ T].
  rewrite F in T. discriminate.
Qed.

(* the short form: some history of in-domain operations makes the check fail *)
Corollary key_reuse_refuted_short :
  exists ops, Forall op_ok ops /\ check_invariants (run vtrue csign csb ex_first ops) = false.
Proof. exists k4_ops. split; [exact k4_ops_ok | vm_compute; reflexivity]. Qed.

(* ---- non-vacuity: a reachable state with two devices, then one more fresh device, one
   conflicting authorization (which bans device 1), and a restart *)
Definition nv_setup : list (op) :=
  [OpRegister (ex_key Byte.x01) [];
   OpAuthorize (ex_auth 1 (ex_key Byte.x0a) 1000);
   OpAuthorize (ex_auth 2 (ex_key Byte.x0b) 1000)].
Definition nv_state : state := run vtrue csign csb ex_first nv_setup.
Definition nv_ops : list (op) :=
  [OpAuthorize (ex_auth 3 (ex_key Byte.x0c) 1000);
   OpAuthorize (ex_auth 1 (ex_key Byte.x0a) 2000);
   OpRestart ex_fresh 12].

Lemma nv_setup_ok : Forall op_ok nv_setup.
Proof.
  unfold nv_setup. constructor; [exact I|]. constructor; [apply ex_auth_finite|].
  constructor; [apply ex_auth_finite | constructor].
Qed.
Lemma nv_ops_ok : Forall op_ok nv_ops.
Proof.
  unfold nv_ops. constructor; [apply ex_auth_finite|]. constructor; [apply ex_auth_finite|].
  constructor; [unfold op_ok, clock_ok; lia | constructor].
Qed.

Example check_nonvacuous :
  Inv vtrue nv_state /\ CheckOK nv_state /\
  map fst (zsort (equipment (mm nv_state))) = [1; 2] /\
  Forall op_ok nv_ops /\ keys_ok vtrue csign csb nv_state nv_ops /\
  outs vtrue csign csb nv_state nv_ops = [Accepted true; Refused; Quiet] /\
  map fst (zsort (equipment (mm (run vtrue csign csb nv_state nv_ops)))) = [2; 3] /\
  bans (mm (run vtrue csign csb nv_state nv_ops)) = [1] /\
  check_invariants (run vtrue csign csb nv_state nv_ops) = true.
Proof.
  assert (K0 : keys_ok vtrue csign csb ex_first nv_setup) by (apply keys_okb_ok; vm_compute; reflexivity).
  assert (I0 : Inv vtrue nv_state) by (apply (run_inv vtrue csign csb nv_setup ex_first ex_first_inv nv_setup_ok)).
  assert (C0 : CheckOK nv_state).
  { apply (consistency_check_passes vtrue csign csb nv_setup ex_first ex_first_inv
             (first_start_check vtrue csign csb ex_tk ex_fresh 10 ex_loaded ex_loaded_ok) nv_setup_ok K0). }
  assert (K1 : keys_ok vtrue csign csb nv_state nv_ops) by (apply keys_okb_ok; vm_compute; reflexivity).
  split; [exact I0|]. split; [exact C0|]. split; [vm_compute; reflexivity|].
  split; [exact nv_ops_ok|]. split; [exact K1|].
  split; [vm_compute; reflexivity|]. split; [vm_compute; reflexivity|]. split; [vm_compute; reflexivity|].
  apply (consistency_check_passes vtrue csign csb nv_ops nv_state I0 C0 nv_ops_ok K1).
Qed.

(* the same end state, checked by evaluation alone *)
Example check_nonvacuous_eval : check_invariants (run vtrue csign csb nv_state nv_ops) = true.
Proof. vm_compute. reflexivity. Qed.
