(* C18 -- Event log stays within its memory bound, keeps the newest events, never panics.
   Only statements, each closed by [exact]; the model is EventLog.v (glow/event_log.go after the
   repair of ExpireLogs), proofs are in EventLog_lemmas.v.

   Reading guide: [run c init ops = Ok st] -- [st] is the logger after performing the operations
   [ops] (Printf / ExpireLogs / DumpLogEntries, each with its own integer timestamp and, where Go
   iterates over a map and sorts, an arbitrary permutation [tb] standing for Go's choice among
   equal last-update times); [Forall op_ok ops] only says that these [tb] are permutations.
   No assumption on the timestamps unless [nondecreasing_from] is written. *)
From Coq Require Import ZArith List Bool Permutation Sorted Lia.
From GCA Require Import EventLog EventLog_lemmas.
Import ListNotations.
Open Scope Z_scope.

(* size counter = 2 * sum of the stored line lengths, in every reachable state, every configuration *)
Theorem c18_accounting_exact : forall (c : cfg) (ops : list op) (st : logger),
  Forall op_ok ops -> run c init ops = Ok st ->
  l_size st = 2 * total_len (l_entries st) /\ NoDup (lines (l_entries st)).
Proof. exact accounting_exact. Qed.

(* the stored lines never exceed the maximum (nothing at all is stored under a negative maximum) *)
Theorem c18_bounded : forall (c : cfg) (ops : list op) (st : logger),
  Forall op_ok ops -> run c init ops = Ok st ->
  2 * total_len (l_entries st) <= Z.max 0 (c_max c) /\ l_size st <= Z.max 0 (c_max c).
Proof. exact bounded. Qed.

(* no operation sequence panics, for every configuration whose line limit is not negative *)
Theorem c18_no_panic : forall (c : cfg) (ops : list op),
  0 <= c_maxline c -> Forall op_ok ops -> run c init ops <> Panic.
Proof. exact no_panic. Qed.

(* ... and the side condition is needed: with a negative line limit every Printf panics (key[:limit]) *)
Theorem c18_negative_line_limit_panics : forall (c : cfg) (st : logger) now l tb,
  c_maxline c < 0 -> printf c st now l tb = Panic.
Proof. exact negative_line_limit_panics. Qed.

(* stored lines are cut to the per-line limit *)
Theorem c18_truncated : forall (c : cfg) (ops : list op) (st : logger),
  Forall op_ok ops -> run c init ops = Ok st ->
  Forall (fun e => Zlen (e_line e) <= c_maxline c) (l_entries st).
Proof. exact truncated. Qed.

(* a loggable line (twice its cut length fits the maximum) is present right after its Printf, as the
   cut text, and its last update is that Printf *)
Theorem c18_newest_kept : forall (c : cfg) (ops : list op) (st : logger) now l tb,
  Forall op_ok ops -> run c init ops = Ok st -> tb_ok tb ->
  0 <= c_maxline c -> 2 * Zlen (cut_line c l) <= c_max c ->
  exists st' e, printf c st now l tb = Ok st' /\ In e (l_entries st') /\
    e_line e = cut_line c l /\ last_opt (e_upd e) = Some now.
Proof. exact newest_kept. Qed.

(* accounting is exact after expiry, and the space freed by expiry is reusable: a new line that fits
   into the maximum minus what is left after the expiry is stored without evicting anything *)
Theorem c18_reuse : forall (c : cfg) (ops : list op) (st : logger) now l tb,
  Forall op_ok ops -> run c init ops = Ok st -> tb_ok tb -> 0 <= c_maxline c ->
  let st1 := expire c st now in
  let key := cut_line c l in
  l_size st1 = 2 * total_len (l_entries st1) /\
  (~ In key (lines (l_entries st1)) ->
   2 * Zlen key <= c_max c - 2 * total_len (l_entries st1) ->
   printf c st now l tb =
     Ok {| l_entries := l_entries st1 ++ [new_entry now key]; l_size := l_size st1 + 2 * Zlen key |}).
Proof. exact reuse. Qed.

(* a new loggable line evicts a prefix of the least-recently-updated order, and no shorter prefix
   would have made room *)
Theorem c18_evict_minimal_oldest : forall (c : cfg) (ops : list op) (st : logger) now l tb st',
  Forall op_ok ops -> run c init ops = Ok st -> tb_ok tb -> 0 <= c_maxline c ->
  let st1 := expire c st now in
  let key := cut_line c l in
  printf c st now l tb = Ok st' -> ~ In key (lines (l_entries st1)) -> 2 * Zlen key <= c_max c ->
  exists order n,
    Permutation order (l_entries st1) /\ StronglySorted entry_le order /\ (n <= length order)%nat /\
    Permutation (l_entries st') (skipn n order ++ [new_entry now key]) /\
    l_entries st' = remove_lines (lines (firstn n order)) (l_entries st1) ++ [new_entry now key] /\
    2 * Zlen key + 2 * total_len (skipn n order) <= c_max c /\
    (forall m, (m < n)%nat -> 2 * Zlen key + 2 * total_len (skipn m order) > c_max c).
Proof. exact evict_minimal_oldest. Qed.

(* a dump expires, then lists exactly the stored lines, by ascending last update *)
Theorem c18_dump_sorted : forall (c : cfg) (ops : list op) (st : logger) now tb,
  Forall op_ok ops -> run c init ops = Ok st -> tb_ok tb ->
  exists out, dump c st now tb = Ok (expire c st now, out) /\
    Permutation out (map entry_out (l_entries (expire c st now))) /\
    StronglySorted dump_le out.
Proof. exact dump_sorted. Qed.

(* when timestamps never go back: update lists are ascending, so "last update" is the latest one *)
Theorem c18_updates_sorted : forall (c : cfg) (ops : list op) (st : logger) t0,
  Forall op_ok ops -> nondecreasing_from t0 ops -> run c init ops = Ok st ->
  Forall (fun e => StronglySorted Z.le (e_upd e) /\
                   Forall (fun u => u <= end_time t0 ops) (e_upd e) /\
                   forall k, last_opt (e_upd e) = Some k -> Forall (fun u => u <= k) (e_upd e))
         (l_entries st).
Proof. exact updates_sorted. Qed.

(* ... and ExpireLogs removes exactly the timestamps strictly before now - expiry, and the lines left
   without timestamp *)
Theorem c18_expire_exact : forall (c : cfg) (ops : list op) (st : logger) t0 now,
  Forall op_ok ops -> nondecreasing_from t0 ops -> run c init ops = Ok st ->
  l_entries (expire c st now) = filter has_upd (map (cut_entry_exact (now - c_expiry c)) (l_entries st)).
Proof. exact expire_exact. Qed.

(* when the last updates are pairwise different (Printf calls of different lines at different
   instants), Go's choice among ties does not exist: the order is the same for every [tb] *)
Theorem c18_tie_break_irrelevant : forall (tb1 tb2 : tie_break) (es : list entry),
  tb_ok tb1 -> tb_ok tb2 -> NoDup (map (fun e => last_opt (e_upd e)) es) ->
  update_order tb1 es = update_order tb2 es.
Proof. exact tie_break_irrelevant. Qed.

(* D12, the code before the repair (ExpireLogs left the counter alone): fill, expire, log again panics *)
Theorem c18_old_expiry_refuted : exists c ops,
  0 <= c_maxline c /\ Forall op_ok ops /\ nondecreasing_from 0 ops /\ run_gen false c init ops = Panic.
Proof. exact old_expiry_refuted. Qed.

(* ---- non-vacuity: a run in which expiry, duplicate, truncation and a two-line eviction happen ---- *)
Definition ex_cfg : cfg := {| c_expiry := 5; c_max := 16; c_maxline := 4 |}.
Definition ex_line (b : Byte.byte) (n : nat) : line := repeat b n.
Definition ex_ops : list op :=
  [ OPrintf 0 (ex_line Byte.x61 4) tb_id;      (* "aaaa", expires before the end *)
    OPrintf 10 (ex_line Byte.x62 6) tb_id;     (* cut to "bbbb" *)
    OPrintf 12 (ex_line Byte.x63 2) tb_id;     (* "cc" *)
    OPrintf 13 (ex_line Byte.x62 4) tb_id;     (* "bbbb" again: now newer than "cc" *)
    OPrintf 14 (ex_line Byte.x64 1) tb_id ].   (* "d": 8+4+2 = 14 <= 16, nothing evicted *)

Example c18_nonvacuous_run :
  Forall op_ok ex_ops /\ nondecreasing_from 0 ex_ops /\
  run ex_cfg init ex_ops =
    Ok {| l_entries := [ {| e_line := ex_line Byte.x62 4; e_upd := [10; 13] |};
                         {| e_line := ex_line Byte.x63 2; e_upd := [12] |};
                         {| e_line := ex_line Byte.x64 1; e_upd := [14] |} ];
          l_size := 14 |}.
Proof.
  split; [repeat constructor; apply tb_id_ok|]. split; [cbn; lia|]. vm_compute. reflexivity.
Qed.

(* "eeee" then needs 8 bytes: "cc" (oldest) and "bbbb" go, "d" stays -- premises of c18_evict_minimal_oldest *)
Example c18_nonvacuous_evict : exists st st',
  run ex_cfg init ex_ops = Ok st /\
  printf ex_cfg st 15 (ex_line Byte.x65 5) tb_id = Ok st' /\
  ~ In (cut_line ex_cfg (ex_line Byte.x65 5)) (lines (l_entries (expire ex_cfg st 15))) /\
  2 * Zlen (cut_line ex_cfg (ex_line Byte.x65 5)) <= c_max ex_cfg /\
  lines (l_entries st') = [ex_line Byte.x64 1; ex_line Byte.x65 4] /\ l_size st' = 10.
Proof.
  do 2 eexists. split; [vm_compute; reflexivity|]. split; [vm_compute; reflexivity|].
  split; [|split; [vm_compute; discriminate|split; vm_compute; reflexivity]].
  vm_compute. intros [H|[H|[H|[]]]]; discriminate.
Qed.

(* premises of c18_reuse: after everything has expired the whole maximum is available again *)
Example c18_nonvacuous_reuse : exists st,
  run ex_cfg init ex_ops = Ok st /\ l_entries (expire ex_cfg st 30) = [] /\
  exists st', printf ex_cfg st 30 (ex_line Byte.x66 4) tb_id = Ok st' /\
    lines (l_entries st') = [ex_line Byte.x66 4] /\ l_size st' = 8.
Proof.
  eexists. split; [vm_compute; reflexivity|]. split; [vm_compute; reflexivity|].
  eexists. split; [vm_compute; reflexivity|]. split; vm_compute; reflexivity.
Qed.

Print Assumptions c18_accounting_exact.
Print Assumptions c18_bounded.
Print Assumptions c18_no_panic.
Print Assumptions c18_negative_line_limit_panics.
Print Assumptions c18_truncated.
Print Assumptions c18_newest_kept.
Print Assumptions c18_reuse.
Print Assumptions c18_evict_minimal_oldest.
Print Assumptions c18_dump_sorted.
Print Assumptions c18_updates_sorted.
Print Assumptions c18_expire_exact.
Print Assumptions c18_tie_break_irrelevant.
Print Assumptions c18_old_expiry_refuted.
