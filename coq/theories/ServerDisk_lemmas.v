(* Window-level lemmas for the restart theorems. *)
From Coq Require Import ZArith List Bool Lia.
From GCA Require Import Wrap Bytes Bytes_lemmas Codec Amap Amap_lemmas Timeslot Server ServerInv ServerInv_lemmas ServerC02_lemmas ServerDisk.
Import ListNotations.
Open Scope Z_scope.
Set Default Proof Using "Type".
Notation length := List.length.

(* ---- integrate = dev_step on the device's window, and it records iff dev_records *)
Lemma integrate_dev st r w a :
  0 <= offset (mm st) -> offset (mm st) + window_len < 2^32 ->
  zget (r_id r) (reports (mm st)) = Some w -> zget (r_id r) (equipment (mm st)) = Some a ->
  integrate st r =
    (if dev_records (offset (mm st)) w r
     then {| mm := with_reports (mm st) (zset (r_id r) (dev_step (a_cap a) (offset (mm st)) w r) (reports (mm st)));
             dd := disk_append_report (dd st) r |}
     else st, Quiet).
Proof.
  intros Ho Hb Qw Qa. unfold integrate, dev_records, dev_step. rewrite Qw, Qa.
  destruct (Z.ltb_spec (r_ts r) (offset (mm st))) as [L|L]; cbn [negb andb]; [reflexivity|].
  rewrite (u32_id (offset (mm st) + window_len)) by (unfold is_u32, window_len in *; lia).
  destruct (Z.leb_spec (offset (mm st) + window_len) (r_ts r)) as [G|G]; cbn [negb andb]; [reflexivity|].
  rewrite (u32_id (r_ts r - offset (mm st))) by (unfold is_u32, window_len in *; lia).
  destruct (Z.leb_spec window_len (r_ts r - offset (mm st))) as [B|B]; [lia|]. cbn [negb andb].
  destruct (r_p (getslot (r_ts r - offset (mm st)) w) =? 1); cbn [negb andb]; [reflexivity|].
  destruct (report_eqb (getslot (r_ts r - offset (mm st)) w) r); cbn [negb]; reflexivity.
Qed.

Lemma dev_step_not_recorded cap o w r : dev_records o w r = false -> dev_step cap o w r = w.
Proof.
  unfold dev_records, dev_step.
  destruct (r_ts r <? o); [reflexivity|].
  destruct (u32 (o + window_len) <=? r_ts r); [reflexivity|].
  destruct (window_len <=? u32 (r_ts r - o)); [reflexivity|].
  destruct (r_p (getslot (u32 (r_ts r - o)) w) =? 1); [reflexivity|].
  destruct (report_eqb (getslot (u32 (r_ts r - o)) w) r); [reflexivity|]. cbn. discriminate.
Qed.

(* ---- extensionality *)
Lemma getslot_ext w1 w2 i : win_eq w1 w2 -> getslot i w1 = getslot i w2.
Proof. intros E. unfold getslot. rewrite (E i). reflexivity. Qed.

Lemma zset_ext {V} i (x : V) w1 w2 : (forall j, zget j w1 = zget j w2) -> forall j, zget j (zset i x w1) = zget j (zset i x w2).
Proof. intros E j. rewrite !zget_zset. destruct (j =? i); [reflexivity | apply E]. Qed.

Lemma dev_records_ext o w1 w2 r : win_eq w1 w2 -> dev_records o w1 r = dev_records o w2 r.
Proof. intros E. unfold dev_records. rewrite (getslot_ext w1 w2 _ E). reflexivity. Qed.

Lemma win_eq_zset i x w1 w2 : win_eq w1 w2 -> win_eq (zset i x w1) (zset i x w2).
Proof. intros E j. apply zset_ext. exact E. Qed.

Lemma win_eq_ban i w1 w2 : win_eq w1 w2 ->
  win_eq (zset i (set_p (getslot i w1) 1) w1) (zset i (set_p (getslot i w2) 1) w2).
Proof. intros E. rewrite (getslot_ext w1 w2 i E). apply win_eq_zset. exact E. Qed.

Lemma dev_step_ext cap o w1 w2 r : win_eq w1 w2 -> win_eq (dev_step cap o w1 r) (dev_step cap o w2 r).
Proof.
  intros E. unfold dev_step. cbv zeta.
  destruct (r_ts r <? o); [exact E|].
  destruct (u32 (o + window_len) <=? r_ts r); [exact E|].
  destruct (window_len <=? u32 (r_ts r - o)); [exact E|].
  set (idx := u32 (r_ts r - o)). rewrite (getslot_ext w1 w2 idx E).
  destruct (r_p (getslot idx w2) =? 1); [exact E|].
  destruct (report_eqb (getslot idx w2) r); [exact E|].
  destruct (r_p (getslot idx w2) =? 0); destruct (overcap cap (r_p r));
    repeat first [apply win_eq_ban | apply win_eq_zset]; exact E.
Qed.

Lemma fold_dev_step_ext cap o l : forall w1 w2, win_eq w1 w2 ->
  win_eq (fold_left (dev_step cap o) l w1) (fold_left (dev_step cap o) l w2).
Proof.
  induction l as [|r l IH]; intros w1 w2 E; cbn [fold_left]; [exact E|].
  apply IH. apply dev_step_ext. exact E.
Qed.

Lemma for_dev_app id l1 l2 : for_dev id (l1 ++ l2) = for_dev id l1 ++ for_dev id l2.
Proof. unfold for_dev. apply filter_app. Qed.

Lemma for_dev_In id l r : In r (for_dev id l) <-> In r l /\ r_id r = id.
Proof. unfold for_dev. rewrite filter_In. rewrite Z.eqb_eq. tauto. Qed.

Lemma replay_dev_snoc cap o l r : replay_dev cap o (l ++ [r]) = dev_step cap o (replay_dev cap o l) r.
Proof. unfold replay_dev. rewrite fold_left_app. reflexivity. Qed.

(* ---- rotation commutes with replay (for reports that were never "too new") *)
Definition shift_rel (w1 w2 : window) : Prop :=
  forall j, zget j w2 = if 0 <=? j then zget (j + week_len) w1 else None.

Lemma shift_rel_shift w : shift_rel w (shift_window w).
Proof. intros j. apply zget_shift. Qed.

Lemma getslot_shift_rel w1 w2 j : shift_rel w1 w2 -> 0 <= j -> getslot j w2 = getslot (j + week_len) w1.
Proof. intros S P. unfold getslot. rewrite (S j). destruct (Z.leb_spec 0 j); [reflexivity | lia]. Qed.

Lemma shift_rel_set w1 w2 i x : shift_rel w1 w2 -> 0 <= i -> shift_rel (zset (i + week_len) x w1) (zset i x w2).
Proof.
  intros S P j. rewrite !zget_zset. rewrite (S j). destruct (Z.leb_spec 0 j) as [Pj|Pj].
  - destruct (Z.eqb_spec j i) as [->|N]; [rewrite Z.eqb_refl; reflexivity|].
    destruct (Z.eqb_spec (j + week_len) (i + week_len)); [lia | reflexivity].
  - destruct (Z.eqb_spec j i); [lia | reflexivity].
Qed.

Lemma shift_rel_set_low w1 w2 i x : shift_rel w1 w2 -> i < week_len -> shift_rel (zset i x w1) w2.
Proof.
  intros S P j. rewrite (S j). destruct (Z.leb_spec 0 j) as [Pj|Pj]; [|reflexivity].
  rewrite zget_zset. destruct (Z.eqb_spec (j + week_len) i); [lia | reflexivity].
Qed.

Lemma shift_rel_ban w1 w2 i : shift_rel w1 w2 -> 0 <= i ->
  shift_rel (zset (i + week_len) (set_p (getslot (i + week_len) w1) 1) w1) (zset i (set_p (getslot i w2) 1) w2).
Proof. intros S P. rewrite (getslot_shift_rel w1 w2 i S P). apply shift_rel_set; assumption. Qed.

Lemma dev_step_shift cap o w1 w2 r :
  0 <= o -> o + week_len + window_len < 2^32 -> 0 <= r_ts r < o + window_len ->
  shift_rel w1 w2 -> shift_rel (dev_step cap o w1 r) (dev_step cap (o + week_len) w2 r).
Proof.
  intros Ho Hb Hr S. unfold dev_step, window_len, week_len in *. cbv zeta.
  rewrite (u32_id (o + 4032)) by (unfold is_u32; lia).
  rewrite (u32_id (o + 2016 + 4032)) by (unfold is_u32; lia).
  destruct (Z.ltb_spec (r_ts r) o) as [L|L].
  { destruct (Z.ltb_spec (r_ts r) (o + 2016)); [exact S | lia]. }
  destruct (Z.leb_spec (o + 4032) (r_ts r)) as [G|G]; [lia|].
  rewrite (u32_id (r_ts r - o)) by (unfold is_u32; lia).
  destruct (Z.leb_spec 4032 (r_ts r - o)) as [B|B]; [lia|].
  destruct (Z.ltb_spec (r_ts r) (o + 2016)) as [L2|L2].
  - (* first half at the old offset: invisible after the shift *)
    set (idx := r_ts r - o). assert (Pi : idx < week_len) by (unfold idx, week_len; lia).
    destruct (r_p (getslot idx w1) =? 1); [exact S|].
    destruct (report_eqb (getslot idx w1) r); [exact S|].
    destruct (r_p (getslot idx w1) =? 0); destruct (overcap cap (r_p r));
      repeat (apply shift_rel_set_low; [|exact Pi]); exact S.
  - destruct (Z.leb_spec (o + 2016 + 4032) (r_ts r)) as [G2|G2]; [lia|].
    rewrite (u32_id (r_ts r - (o + 2016))) by (unfold is_u32; lia).
    destruct (Z.leb_spec 4032 (r_ts r - (o + 2016))) as [B2|B2]; [lia|].
    set (i2 := r_ts r - (o + 2016)).
    replace (r_ts r - o) with (i2 + week_len) by (unfold i2, week_len; lia).
    assert (P2 : 0 <= i2) by (unfold i2; lia).
    rewrite (getslot_shift_rel w1 w2 i2 S P2).
    destruct (r_p (getslot (i2 + week_len) w1) =? 1); [exact S|].
    destruct (report_eqb (getslot (i2 + week_len) w1) r); [exact S|].
    destruct (r_p (getslot (i2 + week_len) w1) =? 0); destruct (overcap cap (r_p r));
      repeat first [apply shift_rel_ban; [|exact P2] | apply shift_rel_set; [|exact P2]]; exact S.
Qed.

Lemma fold_dev_step_shift cap o l : forall w1 w2,
  0 <= o -> o + week_len + window_len < 2^32 ->
  (forall r, In r l -> 0 <= r_ts r < o + window_len) ->
  shift_rel w1 w2 ->
  shift_rel (fold_left (dev_step cap o) l w1) (fold_left (dev_step cap (o + week_len)) l w2).
Proof.
  induction l as [|r l IH]; intros w1 w2 Ho Hb Hl S; cbn [fold_left]; [exact S|].
  apply IH; try assumption; [intros x Hx; apply Hl; right; exact Hx|].
  apply dev_step_shift; try assumption. apply Hl. left; reflexivity.
Qed.

Theorem replay_shift cap o l :
  0 <= o -> o + week_len + window_len < 2^32 ->
  (forall r, In r l -> 0 <= r_ts r < o + window_len) ->
  win_eq (shift_window (replay_dev cap o l)) (replay_dev cap (o + week_len) l).
Proof.
  intros Ho Hb Hl j. rewrite zget_shift.
  pose proof (fold_dev_step_shift cap o l [] [] Ho Hb Hl) as S.
  assert (S0 : shift_rel [] []) by (intros k; cbn; destruct (0 <=? k); reflexivity).
  specialize (S S0 j). unfold replay_dev. rewrite S. reflexivity.
Qed.

(* ---- replaying a report that was already replayed records nothing *)
Definition settled (o : Z) (w : window) (r : report) : Prop := dev_records o w r = false.

Lemma settled_after_step cap o w r : settled o (dev_step cap o w r) r.
Proof.
  unfold settled, dev_records, dev_step. cbv zeta.
  destruct (r_ts r <? o) eqn:A; cbn [negb andb]; [reflexivity|].
  destruct (u32 (o + window_len) <=? r_ts r) eqn:B; cbn [negb andb]; [reflexivity|].
  destruct (window_len <=? u32 (r_ts r - o)) eqn:C; cbn [negb andb]; [reflexivity|].
  set (idx := u32 (r_ts r - o)).
  destruct (r_p (getslot idx w) =? 1) eqn:D; [rewrite D; reflexivity|].
  destruct (report_eqb (getslot idx w) r) eqn:E; [rewrite D, E; reflexivity|].
  destruct (r_p (getslot idx w) =? 0); destruct (overcap cap (r_p r));
    rewrite ?getslot_set, ?Z.eqb_refl; cbn [set_p r_p Z.eqb negb andb]; try reflexivity.
  rewrite report_eqb_refl. apply andb_false_r.
Qed.

Lemma settled_preserved cap o w r r' : r_p r <> 0 -> settled o w r -> settled o (dev_step cap o w r') r.
Proof.
  intros NZ S. unfold settled, dev_records in *.
  destruct (r_ts r <? o) eqn:A; cbn [negb andb] in *; [reflexivity|].
  destruct (u32 (o + window_len) <=? r_ts r) eqn:B; cbn [negb andb] in *; [reflexivity|].
  destruct (window_len <=? u32 (r_ts r - o)) eqn:C; cbn [negb andb] in *; [reflexivity|].
  set (idx := u32 (r_ts r - o)) in *.
  unfold dev_step. cbv zeta.
  destruct (r_ts r' <? o); [exact S|].
  destruct (u32 (o + window_len) <=? r_ts r'); [exact S|].
  destruct (window_len <=? u32 (r_ts r' - o)); [exact S|].
  set (idx' := u32 (r_ts r' - o)).
  destruct (r_p (getslot idx' w) =? 1) eqn:D'; [exact S|].
  destruct (report_eqb (getslot idx' w) r') eqn:E'; [exact S|].
  destruct (Z.eq_dec idx idx') as [EQ|NE].
  - (* same slot: it held r (not blank, not banned) and r' differs from it: the slot gets banned *)
    rewrite <- EQ in *.
    destruct (r_p (getslot idx w) =? 1) eqn:D; [discriminate|]. cbn [negb andb] in S.
    apply negb_false_iff in S. apply report_eqb_eq in S.
    assert (Z0 : (r_p (getslot idx w) =? 0) = false) by (rewrite S; apply Z.eqb_neq; exact NZ).
    rewrite Z0. destruct (overcap cap (r_p r')); rewrite ?getslot_set, ?Z.eqb_refl; cbn [set_p r_p Z.eqb negb andb]; reflexivity.
  - assert (G : forall x w0, getslot idx (zset idx' x w0) = getslot idx w0).
    { intros x w0. rewrite getslot_set. destruct (Z.eqb_spec idx idx'); [contradiction | reflexivity]. }
    destruct (r_p (getslot idx' w) =? 0); destruct (overcap cap (r_p r')); rewrite ?G; exact S.
Qed.

Lemma settled_fold cap o l : forall w r, r_p r <> 0 -> settled o w r -> settled o (fold_left (dev_step cap o) l w) r.
Proof.
  induction l as [|x l IH]; intros w r NZ S; cbn [fold_left]; [exact S|].
  apply IH; [exact NZ | apply settled_preserved; assumption].
Qed.

Lemma settled_in_fold cap o l : forall w r, In r l -> r_p r <> 0 -> settled o (fold_left (dev_step cap o) l w) r.
Proof.
  induction l as [|x l IH]; intros w r I NZ; [contradiction|]. cbn [fold_left].
  destruct I as [->|I]; [apply settled_fold; [exact NZ | apply settled_after_step] | apply IH; assumption].
Qed.

Theorem replay_idempotent_tail cap o l re :
  (forall r, In r re -> In r l) -> (forall r, In r l -> r_p r <> 0) ->
  fold_left (dev_step cap o) re (replay_dev cap o l) = replay_dev cap o l.
Proof.
  intros Sub NZ. induction re as [|r re IH]; cbn [fold_left]; [reflexivity|].
  rewrite dev_step_not_recorded.
  - apply IH. intros x Hx. apply Sub. right; exact Hx.
  - apply settled_in_fold; [apply Sub; left; reflexivity | apply NZ, Sub; left; reflexivity].
Qed.

(* ---- authorizations: the load-time replay makes the same decisions as the live path *)
Lemma f64_go_eq_refl x : f64_is_nan x = false -> f64_go_eq x x = true.
Proof. intros N. unfold f64_go_eq. rewrite N. cbn [orb]. destruct ((x mod 2^63 =? 0) && (x mod 2^63 =? 0)); [reflexivity | apply Z.eqb_refl]. Qed.

Lemma auth_eqb_eq a b : auth_eqb a b = true -> a = b.
Proof.
  unfold auth_eqb. destruct a as [i1 k1 la1 lo1 c1 d1 e1 n1 f1 s1], b as [i2 k2 la2 lo2 c2 d2 e2 n2 f2 s2].
  cbn [a_id a_key a_lat a_long a_cap a_debt a_exp a_init a_fee a_sig]. intros H.
  repeat (apply andb_prop in H; let H2 := fresh "H" in destruct H as [H H2]).
  repeat match goal with X : (_ =? _) = true |- _ => apply Z.eqb_eq in X
                  | X : bytes_eqb _ _ = true |- _ => apply bytes_eqb_eq in X end.
  subst. reflexivity.
Qed.

Lemma auth_go_eq_refl a : auth_finite a -> auth_go_eq a a = true.
Proof.
  intros [N1 N2]. unfold auth_go_eq. rewrite !Z.eqb_refl, !bytes_eqb_refl, (f64_go_eq_refl _ N1), (f64_go_eq_refl _ N2). reflexivity.
Qed.

Lemma go_neq_bitwise_neq cur a : auth_finite a -> auth_go_eq cur a = false -> auth_eqb cur a = false.
Proof.
  intros F G. destruct (auth_eqb cur a) eqn:E; [|reflexivity]. apply auth_eqb_eq in E. subst cur.
  rewrite (auth_go_eq_refl a F) in G. discriminate.
Qed.

Lemma replay_auths_app l1 : forall m0 l2, replay_auths m0 (l1 ++ l2) = replay_auths (replay_auths m0 l1) l2.
Proof.
  induction l1 as [|a l1 IH]; intros m0 l2; cbn [app replay_auths]; [reflexivity|].
  destruct (zin (a_id a) (bans m0)); [apply IH|].
  destruct (zget (a_id a) (equipment m0)) as [cur|]; [destruct (auth_eqb cur a)|]; apply IH.
Qed.
