//go:build test

package suites

func isTestBuild() bool { return true }
