package suites

// T2: the constants translator.  Emits gen/Consts{Prod,Test}.v from the
// constants of the binary it is compiled into (with or without the `test`
// tag) and from integer literals found, by go/ast, inside the bodies of the
// functions the properties anchor (rotation trigger, acceptance half width,
// window length ...).

import (
	"fmt"
	"go/ast"
	"go/parser"
	"go/token"
	"os"
	"path/filepath"
	"sort"
	"strconv"
	"strings"

	"github.com/glowlabs-org/gca-backend/client"
	"github.com/glowlabs-org/gca-backend/glow"
	"github.com/glowlabs-org/gca-backend/server"
	"verifharness/core"
)

func init() { core.Register("consts", constsSuite) }

type lit struct {
	op  string
	val int64
}

// pkgIntConsts maps the integer constants declared at package level in the directory of `file`
// (name = integer literal, or a product/sum of integer literals) to their values, so that a body
// that says `reportTimeslotTolerance` instead of 432 yields the same (operator, value) pair.  Files
// whose build constraint excludes the build this binary is (test / !test) are skipped.
func pkgIntConsts(file string) map[string]int64 {
	out := map[string]int64{}
	dir := filepath.Dir(file)
	names, _ := filepath.Glob(filepath.Join(dir, "*.go"))
	fs := token.NewFileSet()
	var eval func(e ast.Expr) (int64, bool)
	eval = func(e ast.Expr) (int64, bool) {
		switch x := e.(type) {
		case *ast.BasicLit:
			if x.Kind == token.INT {
				v, err := strconv.ParseInt(x.Value, 0, 64)
				return v, err == nil
			}
		case *ast.ParenExpr:
			return eval(x.X)
		case *ast.Ident:
			v, ok := out[x.Name]
			return v, ok
		case *ast.BinaryExpr:
			a, ok1 := eval(x.X)
			b, ok2 := eval(x.Y)
			if ok1 && ok2 {
				switch x.Op {
				case token.MUL:
					return a * b, true
				case token.ADD:
					return a + b, true
				case token.SUB:
					return a - b, true
				case token.SHL:
					if b >= 0 && b < 63 {
						return a << uint(b), true
					}
				}
			}
		case *ast.CallExpr: // uint32(432)
			if len(x.Args) == 1 {
				if id, ok := x.Fun.(*ast.Ident); ok && (strings.HasPrefix(id.Name, "uint") || strings.HasPrefix(id.Name, "int")) {
					return eval(x.Args[0])
				}
			}
		}
		return 0, false
	}
	test := isTestBuild()
	for pass := 0; pass < 2; pass++ { // second pass resolves constants defined in terms of others
		for _, n := range names {
			if strings.HasSuffix(n, "_test.go") {
				continue
			}
			src, err := os.ReadFile(n)
			if err != nil {
				continue
			}
			head := string(src)
			if i := strings.Index(head, "package "); i >= 0 {
				head = head[:i]
			}
			if strings.Contains(head, "go:build") {
				wantsTest := strings.Contains(head, "go:build test") || strings.Contains(head, "&& test") || strings.Contains(head, "test &&")
				wantsNot := strings.Contains(head, "!test")
				if strings.Contains(head, "verif") && !strings.Contains(head, "!verif") {
					continue // instrumentation files
				}
				if (wantsNot && test) || (wantsTest && !wantsNot && !test) {
					continue
				}
			}
			f, err := parser.ParseFile(fs, n, src, 0)
			if err != nil {
				continue
			}
			for _, d := range f.Decls {
				gd, ok := d.(*ast.GenDecl)
				if !ok || gd.Tok != token.CONST {
					continue
				}
				for _, sp := range gd.Specs {
					vs, ok := sp.(*ast.ValueSpec)
					if !ok || len(vs.Names) != len(vs.Values) {
						continue
					}
					for i, nm := range vs.Names {
						if v, ok := eval(vs.Values[i]); ok {
							out[nm.Name] = v
						}
					}
				}
			}
		}
	}
	return out
}

// funcLits collects (operator, integer literal) pairs of binary expressions and
// op-assignments in the body of the named function; an operand that names an integer
// constant of the package counts as the literal it stands for.
func funcLits(file, fn string) ([]lit, error) {
	fs := token.NewFileSet()
	f, err := parser.ParseFile(fs, file, nil, 0)
	if err != nil {
		return nil, err
	}
	consts := pkgIntConsts(file)
	// constants local to the file or function shadow nothing here: look them up the same way
	intOf := func(e ast.Expr) (int64, bool) {
		switch x := e.(type) {
		case *ast.BasicLit:
			if x.Kind == token.INT {
				v, err := strconv.ParseInt(x.Value, 0, 64)
				return v, err == nil
			}
		case *ast.Ident:
			v, ok := consts[x.Name]
			return v, ok
		}
		return 0, false
	}
	var out []lit
	found := false
	for _, d := range f.Decls {
		fd, ok := d.(*ast.FuncDecl)
		if !ok || fd.Name.Name != fn || fd.Body == nil {
			continue
		}
		found = true
		ast.Inspect(fd.Body, func(n ast.Node) bool {
			switch e := n.(type) {
			case *ast.BinaryExpr:
				if v, ok := intOf(e.Y); ok {
					out = append(out, lit{e.Op.String(), v})
				}
			case *ast.AssignStmt:
				if len(e.Rhs) == 1 && e.Tok != token.ASSIGN && e.Tok != token.DEFINE {
					if v, ok := intOf(e.Rhs[0]); ok {
						out = append(out, lit{e.Tok.String(), v})
					}
				}
			}
			return true
		})
	}
	if !found {
		return nil, fmt.Errorf("function %s not found in %s", fn, file)
	}
	return out, nil
}

func coqStr(s string) string { return `"` + strings.ReplaceAll(s, `"`, `""`) + `"%string` }

func constsSuite(seed uint64, tier, outDir string) (*core.Result, error) {
	res := core.NewResult("consts", seed, tier)
	sc := server.VerifConsts()
	cc := client.VerifConsts()
	mod := "ConstsProd"
	if sc["testMode"] == 1 {
		mod = "ConstsTest"
	}
	var sb strings.Builder
	sb.WriteString("(* generated from /repo on every run by harness/suites/consts.go -- do not edit *)\n")
	sb.WriteString("From Coq Require Import ZArith List String.\nImport ListNotations.\nOpen Scope Z_scope.\n")
	if sc["testMode"] == 0 {
		sb.WriteString(fmt.Sprintf("Definition GenesisTime : Z := %d.\n", int64(glow.GenesisTime)))
	}
	emit := func(prefix string, m map[string]int64) {
		ks := []string{}
		for k := range m {
			ks = append(ks, k)
		}
		sort.Strings(ks)
		for _, k := range ks {
			sb.WriteString(fmt.Sprintf("Definition %s_%s : Z := %s.\n", prefix, k, core.Z(m[k])))
		}
	}
	emit("server", sc)
	emit("client", cc)
	pf := []string{}
	for _, f := range server.VerifPublicFiles() {
		pf = append(pf, coqStr(f))
	}
	sb.WriteString("Definition PublicFiles : list string := " + core.List(pf) + ".\n")

	// literals in function bodies
	repo := os.Getenv("VERIF_REPO")
	if repo == "" {
		repo = "/repo"
	}
	type spec struct{ name, file, fn string }
	specs := []spec{
		{"launchMigrateReports", "server/equipment.go", "launchMigrateReports"},
		{"migrateReports", "server/equipment.go", "migrateReports"},
		{"managedHandleEquipmentReport", "server/report_listener_udp.go", "managedHandleEquipmentReport"},
		{"integrateReport", "server/report_listener_udp.go", "integrateReport"},
		{"buildDeviceStats", "server/api_device_stats.go", "buildDeviceStats"},
		{"UnixToTimeslot", "glow/timeslot_u.go", "UnixToTimeslot"},
		{"TimeslotToUnix", "glow/timeslot_u.go", "TimeslotToUnix"},
	}
	failed := []string{}
	for _, s := range specs {
		ls, err := funcLits(filepath.Join(repo, s.file), s.fn)
		if err != nil {
			failed = append(failed, coqStr(s.name))
			ls = nil
		}
		items := []string{}
		for _, l := range ls {
			items = append(items, core.Pair(coqStr(l.op), core.Z(l.val)))
		}
		sb.WriteString(fmt.Sprintf("Definition lits_%s : list (string * Z) := %s.\n", s.name, core.List(items)))
		res.Case(map[string]interface{}{"function": s.fn, "literals": fmt.Sprint(ls)}, s.fn+fmt.Sprint(ls), len(ls) > 0)
	}
	sb.WriteString("Definition extraction_failed : list string := " + core.List(failed) + ".\n")
	if err := os.WriteFile(filepath.Join(outDir, mod+".v"), []byte(sb.String()), 0644); err != nil {
		return nil, err
	}
	res.Rule = "constants of the compiled binary and integer literals of anchored function bodies"
	return res, nil
}
