//go:build test && verif

package suites

// Suite "archive" (C14): GET /api/v1/archive while writes are in progress.  The handler's
// yield point between two files is used to inject a write burst in every gap; the zip is
// opened with the standard library and checked (real Verify) for prefix-consistency,
// dependency closure and the absence of private material; request bursts check the limiter.

import (
	"archive/zip"
	"bytes"
	"encoding/binary"
	"fmt"
	"io"
	"net"
	"os"
	"path/filepath"
	"runtime"
	"runtime/debug"
	"strings"
	"sync"
	"sync/atomic"
	"time"

	"github.com/glowlabs-org/gca-backend/glow"
	"github.com/glowlabs-org/gca-backend/server"
	"verifharness/core"
	"verifharness/srv"
)

func init() {
	core.Register("archive", func(seed uint64, tier, out string) (*core.Result, error) {
		return shardedServerSuite("archive", seed, tier, out, archiveWorker)
	})
}

var tagOf = map[string]string{"allDeviceStats.dat": "FStats", "equipment-reports.dat": "FReports", "equipment-authorizations.dat": "FAuths",
	"gcaPubKey.dat": "FGca", "gcaTempPubKey.dat": "FTemp"}

// splitHOp extracts the operation term of a recorded "HOp (op) obs" hop.
func splitHOp(h string) (string, bool) {
	if !strings.HasPrefix(h, "HOp (") {
		return "", false
	}
	depth := 0
	for i := 4; i < len(h); i++ {
		switch h[i] {
		case '(':
			depth++
		case ')':
			depth--
			if depth == 0 {
				return h[4 : i+1], true
			}
		}
	}
	return "", false
}

type zipFiles map[string][]byte

func unzip(b []byte) (zipFiles, []string, error) {
	zr, err := zip.NewReader(bytes.NewReader(b), int64(len(b)))
	if err != nil {
		return nil, nil, err
	}
	out := zipFiles{}
	var order []string
	for _, f := range zr.File {
		rc, err := f.Open()
		if err != nil {
			return nil, nil, err
		}
		c, err := io.ReadAll(rc)
		rc.Close()
		if err != nil {
			return nil, nil, err
		}
		out[f.Name] = c
		order = append(order, f.Name)
	}
	return out, order, nil
}

func parseStatsStream(b []byte) ([]server.AllDeviceStats, bool) {
	var out []server.AllDeviceStats
	for len(b) > 0 {
		if len(b) < 4 {
			return out, false
		}
		n := uint64(binary.LittleEndian.Uint32(b[:4]))
		need := 4 + n*(32+8*2*2016) + 4 + 64
		if uint64(len(b)) < need {
			return out, false
		}
		a, k, err := server.DeserializeStreamAllDeviceStats(b)
		if err != nil {
			return out, false
		}
		out = append(out, a)
		b = b[k:]
	}
	return out, true
}

// archiveOnce performs one archive request with `burst(gap)` run at every yield point and checks the C14 oracle.
func (s *sim) archiveOnce(burst func(gap int), note string) {
	w := s.w
	var gap int32
	regBefore := s.regDone
	var groups [][]string // hops recorded per gap
	mark := len(w.Hops)
	srv.SetHook("archive.file", func() {
		if atomic.LoadInt32(&s.nestedArchive) != 0 {
			return // yield points of a second download running inside a gap of this one
		}
		g := int(atomic.AddInt32(&gap, 1)) - 1
		before := len(w.Hops)
		if burst != nil {
			burst(g)
		}
		groups = append(groups, append([]string{}, w.Hops[before:]...))
	})
	r := w.Raw("GET", "/api/v1/archive", nil)
	srv.SetHook("archive.file", nil)
	s.res.Count("archive.request")
	// the hops recorded by the bursts become the schedule of one HArchive hop
	w.Hops = w.Hops[:mark]
	w.Desc = w.Desc[:mark]
	if r.Panicked || r.Err != nil {
		s.fail("archive request panics the handler", "panic-archive")
		return
	}
	if r.Status == 429 {
		s.res.Count("archive.rate-limited")
		// the bursts did happen: record them as plain operations
		for _, g := range groups {
			for _, h := range g {
				w.Hops = append(w.Hops, h)
				w.Desc = append(w.Desc, map[string]interface{}{"op": "burst-during-429"})
			}
		}
		return
	}
	if r.Status == 500 && strings.Contains(string(r.Body), "gcaPubKey.dat") && !regBefore {
		// no GCA registered when the key file was due: the handler answers with an error, not an archive
		s.res.Count("archive.unregistered-error")
		for _, g := range groups {
			for _, h := range g {
				w.Hops = append(w.Hops, h)
				w.Desc = append(w.Desc, map[string]interface{}{"op": "burst-during-refused-archive"})
			}
		}
		return
	}
	if r.Status != 200 {
		s.fail(fmt.Sprintf("archive request failed with status %d: %s", r.Status, trunc(r.Body)), "c14-archive-error")
		return
	}
	files, order, err := unzip(r.Body)
	if err != nil {
		s.fail("archive is not a readable zip: "+err.Error(), "c14-zip")
		return
	}
	// ---- oracle
	if _, bad := files["server.keys"]; bad {
		s.fail("the archive contains server.keys", "c14-private-file")
	}
	priv := w.Fresh[1]
	for n, c := range files {
		if bytes.Contains(c, priv) {
			s.fail("the archive file "+n+" contains the server's private key", "c14-private-bytes")
		}
	}
	pub := files["server.pubkey"]
	if !bytes.Equal(pub, w.Fresh[0]) {
		s.fail("server.pubkey in the archive is not the public half of server.keys", "c14-pubkey")
	}
	// prefix of the final files
	finA, _ := readFileOr(w.Dir, "equipment-authorizations.dat")
	finR, _ := readFileOr(w.Dir, "equipment-reports.dat")
	finS, _ := readFileOr(w.Dir, "allDeviceStats.dat")
	chk := func(name string, arch, fin []byte, rec int) {
		if !bytes.HasPrefix(fin, arch) {
			s.fail("archived "+name+" is not a prefix of the file on disk", "c14-prefix:"+name)
		}
		if rec > 0 && len(arch)%rec != 0 {
			s.fail("archived "+name+" is cut inside a record", "c14-record-aligned:"+name)
		}
	}
	chk("equipment-authorizations.dat", files["equipment-authorizations.dat"], finA, 148)
	chk("equipment-reports.dat", files["equipment-reports.dat"], finR, 80)
	chk("allDeviceStats.dat", files["allDeviceStats.dat"], finS, 0)
	stats, whole := parseStatsStream(files["allDeviceStats.dat"])
	if !whole {
		s.fail("archived allDeviceStats.dat is cut inside a record", "c14-record-aligned:allDeviceStats.dat")
	}
	// closure
	var auths []glow.EquipmentAuthorization
	ab := files["equipment-authorizations.dat"]
	for i := 0; i+148 <= len(ab); i += 148 {
		a, _ := glow.DeserializeEquipmentAuthorization(ab[i : i+148])
		auths = append(auths, a)
	}
	var gca glow.PublicKey
	gb, haveGCA := files["gcaPubKey.dat"]
	copy(gca[:], gb)
	for _, a := range auths {
		if !haveGCA || len(gb) != 32 || !refVerify(gca, refAuthSigningBytes(a), a.Signature) {
			s.fail("an archived authorization does not verify under the archived GCA key", "c14-closure-auth")
			break
		}
	}
	rb := files["equipment-reports.dat"]
	var reps []glow.EquipmentReport
	for i := 0; i+80 <= len(rb); i += 80 {
		rp, _ := glow.DeserializeReport(rb[i : i+80])
		reps = append(reps, rp)
		var first *glow.EquipmentAuthorization
		for j := range auths {
			if auths[j].ShortID == rp.ShortID {
				first = &auths[j]
				break
			}
		}
		if first == nil {
			s.fail("an archived report belongs to a device whose authorization is not in the archive", "c14-closure-report-missing-auth")
			break
		}
		if !refVerify(first.PublicKey, refReportSigningBytes(rp.ShortID, rp.Timeslot, rp.PowerOutput), rp.Signature) {
			s.fail("an archived report does not verify under the archived authorization of its device", "c14-closure-report")
			break
		}
	}
	var pk glow.PublicKey
	copy(pk[:], pub)
	for _, st := range stats {
		if !refVerify(pk, refStatsSigningBytes(st), st.Signature) {
			s.fail("archived statistics do not verify under the archived server public key", "c14-closure-stats")
			break
		}
	}
	// ---- the same request for the model: bursts per gap, files in the order they appear in the zip
	sched := []string{}
	gi := 0
	for _, name := range order {
		t, ok := tagOf[name]
		if !ok {
			continue
		}
		ops := []string{}
		if gi < len(groups) {
			for _, h := range groups[gi] {
				if o, ok := splitHOp(h); ok {
					ops = append(ops, o)
				}
			}
		}
		gi++
		sched = append(sched, fmt.Sprintf("(%s, %s)", core.List(ops), t))
	}
	last := []string{}
	for ; gi < len(groups); gi++ {
		for _, h := range groups[gi] {
			if o, ok := splitHOp(h); ok {
				last = append(last, o)
			}
		}
	}
	as, rs, ss := []string{}, []string{}, []string{}
	for _, a := range auths {
		as = append(as, srv.CoqAuth(a))
	}
	for _, rp := range reps {
		rs = append(rs, srv.CoqReport(rp))
	}
	for _, st := range stats {
		ss = append(ss, srv.CoqStats(st))
	}
	opt := func(name, body string) string {
		if _, ok := files[name]; !ok {
			return "None"
		}
		return "(Some " + body + ")"
	}
	ob := fmt.Sprintf("{| ca_stats := %s; ca_reports := %s; ca_auths := %s; ca_gca := %s; ca_temp := %s; ca_pub := %s |}",
		opt("allDeviceStats.dat", core.List(ss)), opt("equipment-reports.dat", core.List(rs)), opt("equipment-authorizations.dat", core.List(as)),
		opt("gcaPubKey.dat", srv.H(files["gcaPubKey.dat"])), opt("gcaTempPubKey.dat", srv.H(files["gcaTempPubKey.dat"])), srv.H(pub))
	w.Hops = append(w.Hops, fmt.Sprintf("HArchive %s %s %s", core.List(sched), core.List(last), ob))
	w.Desc = append(w.Desc, map[string]interface{}{"op": "archive", "note": note, "bursts_per_gap": fmt.Sprint(lens(groups)), "files": order})
}

func lens(g [][]string) []int {
	out := []int{}
	for _, x := range g {
		out = append(out, len(x))
	}
	return out
}

func readFileOr(dir, name string) ([]byte, bool) {
	b, err := readFile(dir + "/" + name)
	return b, err == nil
}

// one world: every (gap x burst kind) combination, spaced by the limiter window
func archiveTour(res *core.Result, r *core.RNG, preRegistered bool) (*sim, error) {
	s, err := newSim(res, r, "archive-tour", 100, true)
	if err != nil {
		return nil, err
	}
	res.Count("archive.tour")
	w := s.w
	window := 70 * time.Millisecond // apiArchiveRate is 60 ms in test builds
	if preRegistered {
		s.register("valid")
		d := s.addDevice(1000)
		s.send(d, 100, 300)
		s.send(d, 99, 310)
		s.send(d, 99, 311)  // a banned slot: the week archived by a later rotation carries the ban marker, signed as such
		s.send(d, 98, 5000) // over capacity: banned too
	}
	s.archiveOnce(nil, "quiet")
	time.Sleep(window)
	for gapTarget := 0; gapTarget < 6; gapTarget++ {
		for _, kind := range []string{"device+report", "register+device", "rotation"} {
			if kind == "register+device" && s.regDone {
				continue
			}
			gt, k := gapTarget, kind
			done := false
			s.archiveOnce(func(g int) {
				if g != gt || done {
					return
				}
				done = true
				switch k {
				case "device+report":
					if !s.regDone {
						return
					}
					if d := s.addDevice(1000); d != nil {
						s.send(d, w.Now, 400+uint64(gt))
						s.send(d, w.Now-1, 410)
						s.send(d, w.Now-1, 411) // banned slot
					}
				case "register+device":
					s.register("valid")
					if d := s.addDevice(2000); d != nil {
						s.send(d, w.Now, 500)
					}
				case "rotation":
					w.SetNow(w.Now + 3300)
					s.rotateTick()
				}
			}, fmt.Sprintf("gap %d burst %s", gapTarget, kind))
			res.Count("archive.burst:" + kind)
			time.Sleep(window)
		}
	}
	// request burst against the limiter: certain violations only
	for attempt := 0; attempt < 5; attempt++ {
		time.Sleep(window)
		t0 := time.Now()
		ok := 0
		for i := 0; i < 8; i++ {
			rr := w.Raw("GET", "/api/v1/archive", nil)
			if rr.Status == 200 {
				ok++
			} else if bytes.Contains(rr.Body, []byte("PK\x03\x04")) {
				s.fail(fmt.Sprintf("a request refused by the limiter (status %d) still received an archive (%d bytes with a zip local-file header)", rr.Status, len(rr.Body)), "c14-refused-but-served")
			}
		}
		if time.Since(t0) < 55*time.Millisecond {
			res.Count("archive.limiter-burst")
			if ok > 3 {
				s.fail(fmt.Sprintf("%d archives were served within %v (limit 3 per 60 ms)", ok, time.Since(t0)), "c14-rate")
			}
			break
		}
		res.Discarded++
	}
	// requests spread over the window, then a burst just after the first one has left it: the limiter's
	// window slides (the requests at 3/4 of the window still count), it does not restart.  Certain
	// violations only: four served archives whose send and receive stamps all lie within one window.
	rate := time.Duration(server.VerifConsts()["apiArchiveRateMs"]) * time.Millisecond
	limit := int(server.VerifConsts()["apiArchiveLimit"])
	for attempt := 0; attempt < 5 && limit == 3; attempt++ {
		time.Sleep(rate + 15*time.Millisecond)
		type sv struct{ a, b time.Time }
		var served []sv
		get := func() {
			a := time.Now()
			rr := w.Raw("GET", "/api/v1/archive", nil)
			if rr.Status == 200 {
				served = append(served, sv{a, time.Now()})
			}
		}
		t0 := time.Now()
		get()
		time.Sleep(time.Until(t0.Add(rate * 3 / 4)))
		get()
		get()
		time.Sleep(time.Until(t0.Add(rate + 3*time.Millisecond)))
		for i := 0; i < 4; i++ {
			get()
		}
		if time.Since(t0) > rate*3/2 || len(served) < 3 {
			res.Discarded++
			continue
		}
		res.Count("archive.limiter-sliding")
		for i := 0; i+3 < len(served); i++ {
			if span := served[i+3].b.Sub(served[i].a); span < rate {
				s.fail(fmt.Sprintf("4 archives were served within %v (limit 3 per %v): requests at 0, 3/4 and just after 1 window length", span, rate), "c14-rate-sliding")
				break
			}
		}
		break
	}
	// the key file is not there while the server runs (botched clean-up or restore): no archive can be
	// assembled.  The request must not create a key file, and must not answer with an archive whose
	// server.pubkey is another key than the one that signed the archived statistics
	kp := filepath.Join(w.Dir, "server.keys")
	if orig, err := os.ReadFile(kp); err == nil && os.Rename(kp, kp+".away") == nil {
		time.Sleep(window)
		rr := w.Raw("GET", "/api/v1/archive", nil)
		res.Count("archive.key-file-missing")
		if nb, err := os.ReadFile(kp); err == nil && !bytes.Equal(nb, orig) {
			s.fail("an archive request made while server.keys was missing created a new key file (the server keeps signing with the key it holds; after a restart the statistics on disk are orphaned)", "c14-key-file-created")
		}
		if rr.Status == 200 {
			if files, _, err := unzip(rr.Body); err == nil && len(orig) >= 32 && !bytes.Equal(files["server.pubkey"], orig[:32]) {
				s.fail("an archive served while server.keys was missing carries a server.pubkey that is not the key the server signs with: the archived statistics do not verify under it", "c14-pubkey")
			}
		}
		os.Remove(kp)
		os.Rename(kp+".away", kp)
	}
	time.Sleep(window)
	s.archiveOnce(nil, "final")
	return s, nil
}

// the very first requests a freshly started server sees arrive together, and requests to a server that
// still waits for its GCA (every one of them fails after the limiter): in both cases at most `limit`
// requests per window get past the limiter -- everything else is answered 429
func archiveAdmissionTour(res *core.Result, r *core.RNG) (*sim, error) {
	rate := time.Duration(server.VerifConsts()["apiArchiveRateMs"]) * time.Millisecond
	limit := int(server.VerifConsts()["apiArchiveLimit"])
	// (a) unregistered server, sequential burst inside one window
	s, err := newSim(res, r, "archive-admission", 500, true)
	if err != nil {
		return nil, err
	}
	w := s.w
	for attempt := 0; attempt < 4; attempt++ {
		time.Sleep(rate + 15*time.Millisecond)
		t0 := time.Now()
		past := 0
		for i := 0; i < 10; i++ {
			if rr := w.Raw("GET", "/api/v1/archive", nil); rr.Status != 429 && rr.Status != 0 {
				past++
			}
		}
		if time.Since(t0) >= rate {
			res.Discarded++
			continue
		}
		res.Count("archive.admission-unregistered")
		if past > limit {
			s.fail(fmt.Sprintf("%d of 10 archive requests to a server that still waits for its GCA got past the limiter within %v (limit %d per %v): requests that fail later are not counted", past, time.Since(t0), limit, rate), "c14-failed-requests-uncounted")
		}
		break
	}
	// (b) a fresh server's first requests, all at once
	s.register("valid")
	if d := s.addDevice(1000); d != nil {
		s.send(d, w.Now, 300)
	}
	type one struct {
		st   int
		a, b time.Time
	}
	for round := 0; round < 6 && s.alive; round++ {
		s.restart(w.Now) // a freshly started process: nothing has asked for an archive yet
		hp, _, _ := w.S.Ports()
		// connections are opened first, the requests are written at the same moment
		conns := make([]net.Conn, 0, 24)
		for g := 0; g < 24; g++ {
			if c, err := net.DialTimeout("tcp", fmt.Sprintf("127.0.0.1:%d", hp), 2*time.Second); err == nil {
				conns = append(conns, c)
			}
		}
		var wg sync.WaitGroup
		start := make(chan struct{})
		outs := make([]one, len(conns))
		for g, c := range conns {
			wg.Add(1)
			go func(g int, c net.Conn) {
				defer wg.Done()
				defer c.Close()
				<-start
				a := time.Now()
				c.SetDeadline(time.Now().Add(5 * time.Second))
				c.Write([]byte("GET /api/v1/archive HTTP/1.1\r\nHost: x\r\nConnection: close\r\n\r\n"))
				b, _ := io.ReadAll(c)
				st := 0
				if len(b) > 12 {
					fmt.Sscanf(string(b[9:12]), "%d", &st)
				}
				outs[g] = one{st, a, time.Now()}
			}(g, c)
		}
		time.Sleep(2 * time.Millisecond)
		close(start)
		wg.Wait()
		served, lo, hi := 0, time.Time{}, time.Time{}
		for _, o := range outs {
			if o.st == 200 {
				served++
				if lo.IsZero() || o.a.Before(lo) {
					lo = o.a
				}
				if o.b.After(hi) {
					hi = o.b
				}
			}
		}
		res.Count("archive.admission-first-burst")
		if served > limit && hi.Sub(lo) < rate {
			s.fail(fmt.Sprintf("%d of the %d first requests a freshly started server received together were served an archive within %v (limit %d per %v)", served, len(conns), hi.Sub(lo), limit, rate), "c14-first-burst")
			break
		}
		time.Sleep(rate + 10*time.Millisecond)
	}
	return s, nil
}

// overlapping downloads right after a failed one: an archive request on a server that still waits for
// its GCA is answered with an error; then the GCA registers, a device reports, and pairs of downloads
// overlap (the second runs completely while the first sits between two files).  Every archive must be
// what a lone download gives.
func archiveOverlapTour(res *core.Result, r *core.RNG) (*sim, error) {
	s, err := newSim(res, r, "archive-overlap", 500, true)
	if err != nil {
		return nil, err
	}
	w := s.w
	window := 70 * time.Millisecond
	// one scheduler thread and no garbage collection while this runs: which recycled object a pooled
	// allocator hands out depends on both, and the point is that two requests meet
	defer runtime.GOMAXPROCS(runtime.GOMAXPROCS(1))
	defer debug.SetGCPercent(debug.SetGCPercent(-1))
	s.archiveOnce(nil, "unregistered")
	s.register("valid")
	d := s.addDevice(1 << 20)
	if d == nil {
		return s, nil
	}
	for k := 0; k < 100; k++ {
		s.send(d, w.Now-uint32(k)-1, 600+uint64(k))
	}
	for round := 0; round < 4; round++ {
		time.Sleep(window)
		nested := false
		gapAt := 1 + round%4
		s.archiveOnce(func(g int) {
			if g != gapAt || nested {
				return
			}
			nested = true
			// the files grow between the part the outer download has copied and the inner download
			if nd := s.addDevice(1 << 20); nd != nil {
				s.send(nd, w.Now, 900+uint64(round))
			}
			for k := 0; k < 5; k++ {
				s.send(d, w.Now+uint32(1+5*round+k), 800+uint64(k))
			}
			atomic.StoreInt32(&s.nestedArchive, 1)
			rr := w.Raw("GET", "/api/v1/archive", nil)
			atomic.StoreInt32(&s.nestedArchive, 0)
			res.Count("archive.overlapping-downloads")
			if rr.Status != 200 {
				return
			}
			files, _, err := unzip(rr.Body)
			if err != nil {
				s.fail("of two overlapping downloads the inner one is not a readable zip: "+err.Error(), "c14-zip")
				return
			}
			for _, n := range []string{"equipment-authorizations.dat", "equipment-reports.dat", "allDeviceStats.dat"} {
				fin, _ := readFileOr(w.Dir, n)
				if !bytes.HasPrefix(fin, files[n]) {
					s.fail("of two overlapping downloads the inner one holds a "+n+" that is not a prefix of the file on disk", "c14-prefix:"+n)
				}
			}
		}, "overlap")
	}
	time.Sleep(window)
	return s, nil
}

// A public file of a few hundred megabytes (a server after some months): the archived copy is still a
// record-aligned prefix of it.  The file is grown by appending copies of its own last record, the archive
// is judged on the implementation alone (prefix, alignment), and the file is cut back before shutdown.
func archiveLargeFileTour(res *core.Result, r *core.RNG, which string) (*sim, error) {
	s, err := started(res, r, "archive-large-"+which, 100, true, 1000)
	if err != nil {
		return s, err
	}
	w := s.w
	d := s.a.Devices[0]
	s.send(d, 100, 300)
	s.send(d, 99, 310)
	name, recLen := "equipment-reports.dat", 80
	if which == "stats" {
		w.SetNow(3300)
		s.rotateTick()
		name = "allDeviceStats.dat"
	}
	path := filepath.Join(w.Dir, name)
	orig, err := os.ReadFile(path)
	if err != nil || len(orig) < recLen {
		return s, nil
	}
	if which == "stats" {
		recLen = len(orig) // one weekly record
	}
	term := w.CoqCase()
	s.res.Case(map[string]interface{}{"ops": w.Desc}, term, true)
	s.closedTerm = term
	s.alive = false
	rec := orig[len(orig)-recLen:]
	chunk := bytes.Repeat(rec, 1+(4<<20)/recLen)
	f, err := os.OpenFile(path, os.O_WRONLY|os.O_APPEND, 0644)
	if err != nil {
		return s, nil
	}
	total := len(orig)
	for total < 300<<20 {
		if _, err := f.Write(chunk); err != nil {
			break
		}
		total += len(chunk)
	}
	f.Close()
	defer os.Truncate(path, int64(len(orig)))
	window := time.Duration(server.VerifConsts()["apiArchiveRateMs"])*time.Millisecond + 10*time.Millisecond
	time.Sleep(window)
	rr := w.Raw("GET", "/api/v1/archive", nil)
	if rr.Status == 429 {
		time.Sleep(window)
		rr = w.Raw("GET", "/api/v1/archive", nil)
	}
	res.Count("archive.large-file:" + which)
	if rr.Panicked || rr.Status != 200 {
		s.fail(fmt.Sprintf("archive request with %s grown to %d bytes fails (status %d, panic %v)", name, total, rr.Status, rr.Panicked), "c14-archive-error")
		return s, nil
	}
	files, _, err := unzip(rr.Body)
	if err != nil {
		s.fail("archive is not a readable zip: "+err.Error(), "c14-zip")
		return s, nil
	}
	fin, _ := os.ReadFile(path)
	arch := files[name]
	if !bytes.HasPrefix(fin, arch) {
		s.fail(fmt.Sprintf("archived %s (%d bytes) is not a prefix of the file on disk (%d bytes)", name, len(arch), len(fin)), "c14-prefix:"+name)
	} else if len(arch)%recLen != 0 {
		s.fail(fmt.Sprintf("archived %s has %d bytes of the %d on disk: %d whole records of %d bytes and a torn record of %d bytes", name, len(arch), len(fin), len(arch)/recLen, recLen, len(arch)%recLen), "c14-record-aligned:"+name)
	}
	res.Extra["archive_large_file_bytes_"+which] = len(arch)
	return s, nil
}

func archiveWorker(res *core.Result, r *core.RNG, tier, out string) error {
	var items []string
	n := 1
	if tier == "thorough" {
		n = 6
	}
	for i := 0; i < n; i++ {
		for _, pre := range []bool{i%2 == 0, i%2 == 1} {
			if core.Shard%2 == 1 && pre {
				continue
			}
			if core.Shard%2 == 0 && !pre {
				continue
			}
			s, err := archiveTour(res, r.Fork(), pre)
			if err != nil {
				return err
			}
			s.finish(&items)
		}
		so, err := archiveOverlapTour(res, r.Fork())
		if err != nil {
			return err
		}
		so.finish(&items)
		sa, err := archiveAdmissionTour(res, r.Fork())
		if err != nil {
			return err
		}
		sa.finish(&items)
	}
	for k, which := range []string{"reports", "stats"} {
		if core.Shard == (2+k)%core.Shards {
			sl, err := archiveLargeFileTour(res, r.Fork(), which)
			if err != nil {
				return err
			}
			sl.finish(&items)
		}
	}
	res.Required = []string{"archive.request", "archive.tour", "archive.large-file:reports", "archive.large-file:stats", "archive.limiter-sliding", "archive.overlapping-downloads", "archive.admission-unregistered", "archive.admission-first-burst"}
	res.Rule = "every (gap between two archived files x write burst {new device + first report, registration + first device, rotation}) combination, quiet archives, request bursts against the limiter (burst and sliding-window pattern), pairs of overlapping downloads right after a refused one; zip opened with archive/zip and checked with the real Verify; non-trivial = archive taken with a burst in a gap; distinct by full history"
	return writeServerCases(res, out, "archive", items)
}

func readFile(p string) ([]byte, error) { return osReadFile(p) }
