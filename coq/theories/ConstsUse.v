(* Readers for the generated constant files (gen/Consts*.v). *)
From Coq Require Import ZArith List String Bool.
Import ListNotations.
Open Scope Z_scope.

Fixpoint lit_of (ops : list string) (l : list (string * Z)) : option (string * Z) :=
  match l with
  | [] => None
  | (o, v) :: l' => if existsb (String.eqb o) ops then Some (o, v) else lit_of ops l'
  end.

Definition all_lits (ops : list string) (l : list (string * Z)) : list Z :=
  map snd (filter (fun p => existsb (String.eqb (fst p)) ops) l).

(* "x > T" and "x >= T+1" are the same trigger *)
Definition strict_bound (p : option (string * Z)) : option Z :=
  match p with
  | Some (o, v) => if String.eqb o ">" then Some v
                   else if String.eqb o ">=" then Some (v - 1) else None
  | None => None
  end.

Definition ceil_div (a b : Z) : Z := (a + b - 1) / b.
