//go:build test && verif

package suites

// C17, client side (suite "migrate"): sync replies delivered to a real client by
// scripted servers -- server lists (new servers, bans, un-ban attempts, changed
// ports), migration orders (valid with 1..4 new servers, with none, for another
// device, with a bad outer signature, with a new server signed by the old GCA,
// naming the current GCA) -- with restarts in between.  After every step the
// client's state (accessor) and its three files are compared with the model
// (ClientSync.v: sync_round / apply_sync / client_load); the oracle checks the
// property text on the implementation alone (see histRun.round in rogue.go).

import (
	"fmt"
	"sync"

	"github.com/glowlabs-org/gca-backend/client"
	"github.com/glowlabs-org/gca-backend/glow"
	"verifharness/core"
)

func init() { core.Register("migrate", migrateSuite) }

var migKinds = []string{"migrate", "migrate", "samegca", "badinner", "badinner-known", "foreign-order", "selfsigned", "badmig", "success", "success", "badsrvsig", "badsrvsig-known", "reset", "stale"}

func runMigrateHistory(h *histRun, kind string) error {
	rng := h.rng
	n := rng.Range(1, 3)
	if kind == "move-banned" {
		n = 3
	}
	if kind == "k7" || kind == "samegca" {
		n = 1 // the forced scenarios must not depend on which server the client happens to pick
	}
	initial := map[glow.PublicKey]client.GCAServer{}
	for i := 0; i < n; i++ {
		f, err := h.addFake(true)
		if err != nil {
			return err
		}
		initial[f.key.pub] = h.entryFor(f, false)
	}
	if err := h.start(initial); err != nil {
		return err
	}
	// a real NewClient (reporting loop and all) must load the same state as the hook loader
	crossCheck := func() {
		if h.dead || h.c == nil {
			return
		}
		h.load() // the restart proper (hook loader); refusals are judged there
		if h.dead || h.c == nil {
			return
		}
		want := client.VerifState(h.c)
		rc, err := client.NewClient(h.cd.dir)
		if err != nil {
			h.fail("NewClient refuses the directory that the hook loader accepts: "+err.Error(), "loader-drift", map[string]interface{}{"history": h.tag})
			return
		}
		got := client.VerifState(rc)
		rc.Close()
		rc.VerifSyncForget()
		if got.GCAPubKey != want.GCAPubKey || got.ShortID != want.ShortID || !sameMap(stateMap(got), stateMap(want)) {
			h.fail("NewClient loads another state than the hook loader", "loader-drift", map[string]interface{}{"history": h.tag})
		}
		h.count("hist.newclient-crosscheck")
	}
	rounds := rng.Range(5, 7)
	if kind == "rejects" {
		rounds = 8
	}
	for r := 0; r < rounds && !h.dead; r++ {
		known := stateMap(client.VerifState(h.c))
		plan := map[glow.PublicKey]beh{}
		label := "mixed"
		for _, k := range sortedKeys(known) {
			f, ok := h.fakes[k]
			if !ok || f.peer == nil {
				continue
			}
			bk := migKinds[rng.Intn(len(migKinds))]
			switch {
			case kind == "k7" && r == 0:
				bk, label = "migrate0", "migrate0"
			case kind == "chain" && (r == 0 || r == 2):
				bk, label = "migrate", "migrate"
			case kind == "rejects" && r < 7:
				bk = []string{"badinner", "badinner-known", "badsrvsig-known", "foreign-order", "badmig", "badsrvsig", "selfsigned"}[r]
				label = bk
			case kind == "samegca" && r == 0:
				bk, label = "samegca", "samegca"
			case kind == "move-banned" && r < 2:
				bk, label = "ban-then-move", "ban-then-move"
			}
			plan[k] = h.mkBeh(bk, f, known)
			if bk == "migrate" || bk == "migrate0" { // one order per round: the other servers of the round just fail
				label = bk
				for _, k2 := range sortedKeys(known) {
					if _, done := plan[k2]; !done {
						if f2, ok2 := h.fakes[k2]; ok2 && f2.peer != nil {
							plan[k2] = h.mkBeh("reset", f2, known)
						}
					}
				}
				break
			}
		}
		h.round(plan, label)
		if !h.dead && (rng.Chance(40) || label == "migrate" || label == "migrate0") {
			if rng.Chance(50) {
				crossCheck()
			} else {
				h.load()
			}
		}
	}
	if !h.dead {
		crossCheck()
	}
	return nil
}

func migrateSuite(seed uint64, tier, outDir string) (*core.Result, error) {
	res := core.NewResult("migrate", seed, tier)
	rng := core.NewRNG(seed)
	nh := 20
	if tier == "thorough" {
		nh = 400
	}
	forced := []string{"k7", "chain", "rejects", "samegca", "move-banned", "chain", "rejects"}
	results := make([]*histRun, nh)
	var wg sync.WaitGroup
	sem := make(chan struct{}, 8)
	var firstErr error
	var emu sync.Mutex
	for i := 0; i < nh; i++ {
		kind := "mixed"
		if i < len(forced) {
			kind = forced[i]
		} else if tier == "thorough" && i%40 == 7 {
			kind = "k7"
		}
		h := newHistRun(rng.Fork(), fmt.Sprintf("migrate%d-%s", i, kind))
		h.prop = "C17"
		results[i] = h
		wg.Add(1)
		sem <- struct{}{}
		go func(h *histRun, kind string) {
			defer wg.Done()
			defer func() { <-sem }()
			if err := runMigrateHistory(h, kind); err != nil {
				emu.Lock()
				if firstErr == nil {
					firstErr = err
				}
				emu.Unlock()
			}
		}(h, kind)
	}
	wg.Wait()
	if firstErr != nil {
		return nil, firstErr
	}
	var items []string
	for _, h := range results {
		h.mergeInto(res)
		nontrivial := false
		for _, d := range h.desc {
			if m, ok := d.(map[string]interface{}); ok && m["result"] == "RTrue" {
				nontrivial = true
			}
		}
		if h.cd == nil {
			continue
		}
		res.Case(map[string]interface{}{"kind": "client-history", "name": h.tag, "steps": h.desc}, h.gallina(), nontrivial)
		res.Evaluations += len(h.desc) - 1 // every load / round of the history is compared with the model
		items = append(items, h.gallina())
		h.cleanup()
	}
	for off := 0; off < len(items); off += 10 {
		end := off + 10
		if end > len(items) {
			end = len(items)
		}
		if err := res.CasesFile(outDir, fmt.Sprintf("cases_migrate_%d", off/10), syncImports, "hcase", items[off:end], "h_mismatches "+modelVersion); err != nil {
			return nil, err
		}
	}
	res.Required = append(res.Required, "round.migrate", "round.migrate0", "round.migrated", "round.migrated-to-empty-list", "order.known-servers", "order.ban-then-older-entry", "round.samegca", "round.ban-then-move",
		"attempt.badinner", "attempt.badinner-known", "attempt.badsrvsig-known", "attempt.foreign-order", "attempt.selfsigned", "attempt.badmig", "attempt.badsrvsig", "attempt.migrate", "attempt.migrate0", "attempt.samegca",
		"attempt.ban-then-move", "hist.load", "hist.load.refused", "hist.newclient-crosscheck")
	res.Rule = "client histories over scripted servers: list updates (new, ban, un-ban attempt, changed ports), migration orders (valid with 1..4 servers and duplicate keys, none, foreign device, bad outer signature, inner entry signed by the old GCA, order naming the current GCA), chains of two migrations, restarts after every adoption (hook loader and real NewClient); non-trivial = at least one accepted reply"
	return res, nil
}
