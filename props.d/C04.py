# C04 -- see DESIGN.md section 5
PROP = {
    "props_v": "Props/C04.v",
    "extra_v": ["ServerRun.v"],
    "gen_bins": [],
    "gen_obligations": [],
    "suites": [("test", "restart")],
    "assumptions": [
        "disk modelled at record granularity (each record is appended by one write call); byte layouts are C15's",
        "signature scheme is a parameter (Section variable verify): the theorems hold for any verify",
        "clocks below 2^32-8192 timeslots; authorizations carry non-NaN coordinates (the live path compares floats with ==, the load path bitwise; they agree off NaN, and JSON cannot transport NaN)",
        "the authorized-server list and migration orders are not persisted by the code and are outside the property",
    ],
}
TEXT = {
    "text": "Coq theorems: the invariant Inv (memory invariant + 'the disk holds exactly what start-up needs': keys, GCA key file, authorization log whose load-time replay reproduces the device table / key lookup / bans, report log whose per-device replay reproduces every window, archive file = archived weeks) holds after first start for every clock and after EVERY operation list (registrations, authorizations incl. conflicts, reports incl. banned slots, rotations, impact data, queries, restarts); from any such state start-up SUCCEEDS and rebuilds an extensionally equal state (c04_load_equiv: same GCA key, devices, lookups, bans, every slot, offset, identical archived weeks), restart = that start-up + the catch-up rotations the clock requires (c04_restart_equiv), and restart is idempotent. Key lemmas: replay makes the same ban decisions as the live path, rotation commutes with replay of the report log, re-appended reports are replay-neutral. Correspondence: histories with a restart after many prefixes, doubled restarts, restarts at clocks needing 0/1/several catch-up rotations, incl. the banned-device-with-persisted-reports scenario; files compared record by record, Go-side oracle compares snapshots before/after. Added after seeded-change rounds: storage-fault tour (a registration whose key file cannot be written leaves no trace), long run beyond the recent-report list then restart. Round 5: weeks archived by the start-up catch-up compared with the persisted live reports; 40 devices (equipment file longer than any one read buffer) across restarts.",
    "note": "Trusted: Coq kernel+vm_compute, harness. The kernel keeps completed appends (process-restart model); impact rates of the live window are not persisted by the code (outside the property's list) and are compared only by domain.",
    "technique": "Coq proof (incremental = replay invariant over operation lists: induction with extensional map equality, commutation of rotation with replay, idempotence of re-appended reports) + differential correspondence + oracle",
}
