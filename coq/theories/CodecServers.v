(* Variable-length structures: server.AuthorizedServer (Serialize, SigningBytes),
   server.EquipmentMigration (Serialize, SigningBytes) and the client's server map
   (client.SerializeGCAServerMap / UntrustedDeserializeGCAServerMap).  Definitions only.
   Locations are byte strings (Go strings are arbitrary bytes). *)
From Coq Require Import ZArith List Bool String.
From GCA Require Import Bytes Codec CodecStats.
Import ListNotations.
Open Scope Z_scope.
Notation length := List.length.

(* sequential reader: the next n bytes and the rest, or nothing when fewer are left *)
Definition take (n : nat) (b : bytes) : option (bytes * bytes) :=
  if (length b <? n)%nat then None else Some (firstn n b, skipn n b).

Definition bool_byte (x : bool) : Byte.byte := if x then Byte.x01 else Byte.x00.

(* ---- AuthorizedServer --------------------------------------------------------- *)
Record aserver := { as_key : bytes; as_banned : bool; as_loc : bytes;
                    as_http : Z; as_tcp : Z; as_udp : Z; as_sig : bytes }.

(* key(32) banned(1) len(1) location(len) http(2) tcp(2) udp(2): the length byte is
   byte(len(Location)), i.e. the length modulo 256 *)
Definition aserver_body (s : aserver) : bytes :=
  pad 32 (as_key s) ++ [bool_byte (as_banned s)] ++ [z2b (Z.of_nat (length (as_loc s)))] ++
  as_loc s ++ le_enc 2 (as_http s) ++ le_enc 2 (as_tcp s) ++ le_enc 2 (as_udp s).
Definition aserver_serialize (s : aserver) : bytes := aserver_body s ++ pad 64 (as_sig s).
Definition aserver_signing_bytes (s : aserver) : bytes := ascii_bytes prefix_aserver ++ aserver_body s.

Definition aserver_wf (s : aserver) : Prop :=
  length (as_key s) = 32%nat /\ (length (as_loc s) <= 255)%nat /\
  0 <= as_http s < 2^16 /\ 0 <= as_tcp s < 2^16 /\ 0 <= as_udp s < 2^16 /\
  length (as_sig s) = 64%nat.

(* Reference decoder of one record at the head of [b] (the repository has no decoder
   of its own for this structure on the server side; the client's sync parser reads
   the same layout).  Strict: the banned byte must be 0 or 1. *)
Definition aserver_decode_prefix (b : bytes) : dres aserver :=
  match take 32 b with None => DErr | Some (key, b1) =>
  match take 1 b1 with None => DErr | Some (fl, b2) =>
  match take 1 b2 with None => DErr | Some (lb, b3) =>
  let l := Z.to_nat (le_dec lb) in
  match take l b3 with None => DErr | Some (loc, b4) =>
  match take 2 b4 with None => DErr | Some (h, b5) =>
  match take 2 b5 with None => DErr | Some (t, b6) =>
  match take 2 b6 with None => DErr | Some (u, b7) =>
  match take 64 b7 with None => DErr | Some (sg, _) =>
  if bytes_eqb fl [Byte.x00] || bytes_eqb fl [Byte.x01] then
    DOk {| as_key := key; as_banned := bytes_eqb fl [Byte.x01]; as_loc := loc;
           as_http := le_dec h; as_tcp := le_dec t; as_udp := le_dec u; as_sig := sg |} (104 + l)
  else DErr
  end end end end end end end end.
(* a whole buffer holding exactly one record *)
Definition aserver_decode (b : bytes) : option aserver :=
  match aserver_decode_prefix b with
  | DOk s n => if Nat.eqb n (length b) then Some s else None
  | _ => None
  end.

(* ---- EquipmentMigration ------------------------------------------------------- *)
Record migration := { m_equip : bytes; m_newgca : bytes; m_newid : Z;
                      m_servers : list aserver; m_sig : bytes }.

Fixpoint aservers_encode (l : list aserver) : bytes :=
  match l with [] => [] | s :: l' => aserver_serialize s ++ aservers_encode l' end.
Definition migration_body (m : migration) : bytes :=
  pad 32 (m_equip m) ++ pad 32 (m_newgca m) ++ le_enc 4 (m_newid m) ++ aservers_encode (m_servers m).
Definition migration_serialize (m : migration) : bytes := migration_body m ++ pad 64 (m_sig m).
Definition migration_signing_bytes (m : migration) : bytes :=
  ascii_bytes prefix_migration ++ migration_body m.

Definition migration_wf (m : migration) : Prop :=
  length (m_equip m) = 32%nat /\ length (m_newgca m) = 32%nat /\ 0 <= m_newid m < 2^32 /\
  Forall aserver_wf (m_servers m) /\ length (m_sig m) = 64%nat.

(* reference decoder: the records after the 68-byte header, up to the last 64 bytes
   (a record is at least 104 bytes long, so "exactly 64 bytes left" is unambiguous) *)
Fixpoint aservers_decode (fuel : nat) (b : bytes) : dres (list aserver * bytes) :=
  match fuel with
  | O => DFuel
  | S fuel' =>
      if Nat.eqb (length b) 64 then DOk ([], b) 0 else
      match aserver_decode_prefix b with
      | DOk s n =>
          match aservers_decode fuel' (skipn n b) with
          | DOk (l, sg) m => DOk (s :: l, sg) (n + m)
          | DErr => DErr | DFatal => DFatal | DFuel => DFuel
          end
      | DErr => DErr | DFatal => DFatal | DFuel => DFuel
      end
  end.
Definition migration_decode (b : bytes) : dres migration :=
  match take 32 b with None => DErr | Some (eq, b1) =>
  match take 32 b1 with None => DErr | Some (gca, b2) =>
  match take 4 b2 with None => DErr | Some (id, b3) =>
  match aservers_decode (S (length b3)) b3 with
  | DOk (l, sg) n =>
      DOk {| m_equip := eq; m_newgca := gca; m_newid := le_dec id; m_servers := l; m_sig := sg |} (length b)
  | DErr => DErr | DFatal => DFatal | DFuel => DFuel
  end end end end.

(* ---- the client's server map (gcaServers.dat) --------------------------------- *)
Record cserver := { cs_banned : bool; cs_loc : bytes; cs_http : Z; cs_tcp : Z; cs_udp : Z }.
Definition centry : Type := bytes * cserver.       (* public key, server *)

(* key(32) banned(1) len(2, little-endian) location http(2) tcp(2) udp(2) *)
Definition centry_encode (e : centry) : bytes :=
  pad 32 (fst e) ++ [bool_byte (cs_banned (snd e))] ++ le_enc 2 (Z.of_nat (length (cs_loc (snd e)))) ++
  cs_loc (snd e) ++ le_enc 2 (cs_http (snd e)) ++ le_enc 2 (cs_tcp (snd e)) ++ le_enc 2 (cs_udp (snd e)).
(* SerializeGCAServerMap over the entries in the order the map iteration produced them;
   an over-long location makes the whole call fail *)
Fixpoint smap_encode (l : list centry) : option bytes :=
  match l with
  | [] => Some []
  | e :: l' =>
      if 65535 <? Z.of_nat (length (cs_loc (snd e))) then None else
      match smap_encode l' with Some r => Some (centry_encode e ++ r) | None => None end
  end.

Definition centry_wf (e : centry) : Prop :=
  length (fst e) = 32%nat /\ Z.of_nat (length (cs_loc (snd e))) <= 65535 /\
  0 <= cs_http (snd e) < 2^16 /\ 0 <= cs_tcp (snd e) < 2^16 /\ 0 <= cs_udp (snd e) < 2^16.

(* one entry at the head of a non-empty input, as UntrustedDeserializeGCAServerMap reads
   it with a bytes.Reader (any non-zero banned byte means banned; every shortage is an
   error) *)
Definition centry_decode_prefix (b : bytes) : dres centry :=
  match take 32 b with None => DErr | Some (key, b1) =>
  match take 1 b1 with None => DErr | Some (fl, b2) =>
  match take 2 b2 with None => DErr | Some (ln, b3) =>
  let l := Z.to_nat (le_dec ln) in
  match take l b3 with None => DErr | Some (loc, b4) =>
  match take 2 b4 with None => DErr | Some (h, b5) =>
  match take 2 b5 with None => DErr | Some (t, b6) =>
  match take 2 b6 with None => DErr | Some (u, _) =>
  DOk (key, {| cs_banned := negb (bytes_eqb fl [Byte.x00]); cs_loc := loc;
               cs_http := le_dec h; cs_tcp := le_dec t; cs_udp := le_dec u |}) (41 + l)
  end end end end end end end.
(* the entries in file order *)
Fixpoint smap_decode_list (fuel : nat) (b : bytes) : dres (list centry) :=
  match fuel with
  | O => DFuel
  | S fuel' =>
      match b with
      | [] => DOk [] 0
      | _ :: _ =>
          match centry_decode_prefix b with
          | DOk e n =>
              match smap_decode_list fuel' (skipn n b) with
              | DOk l m => DOk (e :: l) (n + m)
              | DErr => DErr | DFatal => DFatal | DFuel => DFuel
              end
          | DErr => DErr | DFatal => DFatal | DFuel => DFuel
          end
      end
  end.
Definition smap_decode (b : bytes) : dres (list centry) := smap_decode_list (S (length b)) b.

(* the Go map built from the entries: gcaMap[key] = ... in file order, later wins *)
Fixpoint smap_lookup (k : bytes) (l : list centry) : option cserver :=
  match l with
  | [] => None
  | (k', v) :: l' =>
      match smap_lookup k l' with
      | Some v' => Some v'
      | None => if bytes_eqb k k' then Some v else None
      end
  end.

(* ---- the six signed message types ------------------------------------------------------ *)
Inductive msg :=
| MReport (r : report)
| MAuth (a : auth)
| MMigration (m : migration)
| MServer (s : aserver)
| MStats (x : all_stats)
| MReg (gcakey : bytes).

Definition msg_signing_bytes (m : msg) : bytes :=
  match m with
  | MReport r => report_signing_bytes r
  | MAuth a => auth_signing_bytes a
  | MMigration g => migration_signing_bytes g
  | MServer s => aserver_signing_bytes s
  | MStats x => stats_signing_bytes x
  | MReg k => reg_signing_bytes k
  end.
Definition msg_type (m : msg) : nat :=
  match m with MReport _ => 0 | MAuth _ => 1 | MMigration _ => 2 | MServer _ => 3 | MStats _ => 4 | MReg _ => 5 end%nat.
Definition msg_wf (m : msg) : Prop :=
  match m with
  | MReport r => report_wf r
  | MAuth a => auth_wf a
  | MMigration g => migration_wf g
  | MServer s => aserver_wf s
  | MStats x => stats_wf x
  | MReg k => reg_wf k
  end.
(* equality of everything the signature covers *)
Definition msg_same_signed (m1 m2 : msg) : Prop :=
  match m1, m2 with
  | MReport r1, MReport r2 => r_id r1 = r_id r2 /\ r_ts r1 = r_ts r2 /\ r_p r1 = r_p r2
  | MAuth a1, MAuth a2 =>
      a_id a1 = a_id a2 /\ a_key a1 = a_key a2 /\ a_lat a1 = a_lat a2 /\ a_long a1 = a_long a2 /\
      a_cap a1 = a_cap a2 /\ a_debt a1 = a_debt a2 /\ a_exp a1 = a_exp a2 /\ a_init a1 = a_init a2 /\
      a_fee a1 = a_fee a2
  | MMigration g1, MMigration g2 =>
      m_equip g1 = m_equip g2 /\ m_newgca g1 = m_newgca g2 /\ m_newid g1 = m_newid g2 /\
      m_servers g1 = m_servers g2
  | MServer s1, MServer s2 =>
      as_key s1 = as_key s2 /\ as_banned s1 = as_banned s2 /\ as_loc s1 = as_loc s2 /\
      as_http s1 = as_http s2 /\ as_tcp s1 = as_tcp s2 /\ as_udp s1 = as_udp s2
  | MStats x1, MStats x2 => s_devs x1 = s_devs x2 /\ s_tso x1 = s_tso x2
  | MReg k1, MReg k2 => k1 = k2
  | _, _ => False
  end.
