(* C08: the device's retransmission loop composed with the server.  Definitions. *)
From Coq Require Import ZArith List Bool.
From GCA Require Import Wrap Bytes Codec Amap Timeslot Server ClientHistory ClientReports.
Import ListNotations.
Open Scope Z_scope.
Notation length := List.length.

Fixpoint zrange (start : Z) (n : nat) : list Z :=
  match n with O => [] | S k => start :: zrange (start + 1) k end.

(* threadedSyncWithServer's resend loop:
     lastIndex := latestReading - timeslotOffset                     (uint32)
     for i := uint32(0); i <= lastIndex && int(i)/8 < len(bitfield); i++ { if bit i is clear ... }
   [bits] = the indices whose bit is set in the reply *)
Definition resend_indices (offset latest : Z) (bits : list Z) : list Z :=
  let last := u32 (latest - offset) in
  filter (fun i => (i <=? last) && negb (zin i bits)) (zrange 0 4032).

(* for each such index: load the reading of slot i+offset (uint32 sum); skip errors and values < 2;
   otherwise re-send it sign-extended *)
Definition resend_emissions (origin : Z) (h : history) (offset latest : Z) (bits : list Z) : list emission :=
  flat_map (fun i => match sync_resend origin h (u32 (i + offset)) with Some e => [e] | None => [] end)
           (resend_indices offset latest bits).

Section Compose.
  Variable verify : bytes -> bytes -> bytes -> bool.
  Variable csign : bytes -> bytes.          (* glow.Sign(_, device key) *)

  (* all datagrams arrive (a fault-free round), while the server's clock reads [now] *)
  Definition deliver_all (st : state) (now : Z) (ds : list bytes) : state :=
    fold_left (fun s d => fst (udp_receive verify s now d)) ds st.

  (* one fault-free sync round of device [id]: the reply is the server's view, the device
     retransmits what the reply says is missing, everything arrives *)
  Definition sync_round_delivered (st : state) (now id origin : Z) (h : history) (latest : Z) : state :=
    match sync_view st id with
    | Some (_, offset, bits) =>
        deliver_all st now (map (datagram csign id) (resend_emissions origin h offset latest bits))
    | None => st
    end.
End Compose.
