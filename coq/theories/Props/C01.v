(* C01 -- Only authentic, authorized, in-window reports change server state.
   Statements only; proofs in ServerC01_lemmas.v. *)
From Coq Require Import ZArith List Bool.
From GCA Require Import Wrap Bytes Codec Amap Timeslot Server ServerC01_lemmas.
Import ListNotations.
Open Scope Z_scope.

Section C01.
  Variable verify : bytes -> bytes -> bytes -> bool.   (* any signature scheme *)
  Variable sign : bytes -> bytes -> bytes.
  Variable stats_sb : list devstat -> Z -> bytes.

  (* For EVERY byte string, clock and state: either the whole state (memory and disk) is
     exactly as it was, or the leading 80 bytes decode to a report of an authorized device
     whose signature verifies under that device's key over the report's signing bytes,
     within 432 slots of the clock, inside the stored window, power not 0 or 1. *)
  Theorem c01_decide st now d :
    is_u32 now -> 0 <= offset (mm st) -> offset (mm st) + 4032 < 2^32 ->
    fst (udp_receive verify st now d) = st \/ c01_valid verify st now d.
  Proof. exact (decide verify st now d). Qed.

  Theorem c01_only_if st now d st' o :
    is_u32 now -> 0 <= offset (mm st) -> offset (mm st) + 4032 < 2^32 ->
    udp_receive verify st now d = (st', o) -> st' <> st -> c01_valid verify st now d.
  Proof. exact (only_if verify st now d st' o). Qed.

  Theorem c01_frame st now d :
    is_u32 now -> 0 <= offset (mm st) -> offset (mm st) + 4032 < 2^32 ->
    ~ c01_valid verify st now d -> fst (udp_receive verify st now d) = st.
  Proof. exact (frame verify st now d). Qed.

  Theorem c01_observables st st' id k tso :
    st' = st ->
    sync_view st' id = sync_view st id /\
    recent_view st' k = recent_view st k /\
    snd (stats_query sign stats_sb st' tso) = snd (stats_query sign stats_sb st tso) /\
    d_reports (dd st') = d_reports (dd st).
  Proof. exact (observables_unchanged sign stats_sb st st' id k tso). Qed.

  Theorem c01_no_wrap ts now : is_u32 ts -> is_u32 now ->
    accept_go accept_half ts now = (Z.abs (ts - now) <=? 432).
  Proof. exact (no_wrap ts now). Qed.
End C01.
