//go:build test && verif

package suites

// The server suites built on serverops.go: slots (C02), weeks (C03), restart (C04),
// equip (C06), register (C07), hostile (C12).

import (
	"fmt"

	"github.com/glowlabs-org/gca-backend/server"
	"verifharness/core"
	"verifharness/srv"
)

var profiles = map[string]profile{
	"slots":    {name: "slots", report: 50, resigned: 12, replay: 12, hostile: 4, authNew: 2, authConflict: 1, clock: 3, tick: 2, stats: 3, restart: 2, syncq: 2},
	"weeks":    {name: "weeks", report: 25, resigned: 2, replay: 2, hostile: 2, authNew: 3, authConflict: 2, impact: 8, clock: 14, tick: 8, stats: 25, restart: 5, syncq: 1},
	"restart":  {name: "restart", report: 30, resigned: 4, replay: 4, hostile: 2, authNew: 5, authDup: 2, authBad: 1, authConflict: 4, authOtherKey: 1, authBanned: 1, regAgain: 1, impact: 2, clock: 8, tick: 3, stats: 3, restart: 20, syncq: 1},
	"equip":    {name: "equip", report: 12, replay: 2, hostile: 2, authNew: 14, authDup: 8, authBad: 8, authConflict: 10, authOtherKey: 5, authBanned: 6, regAgain: 2, clock: 2, stats: 3, restart: 6, syncq: 4},
	"register": {name: "register", report: 4, authNew: 6, authBad: 4, regAgain: 30, restart: 8, stats: 1},
	"crash":    {name: "crash", report: 25, resigned: 2, replay: 3, hostile: 2, authNew: 6, authDup: 1, authConflict: 4, authOtherKey: 1, regAgain: 2, impact: 1, clock: 8, tick: 6, stats: 2, restart: 10},
	"hostile":  {name: "hostile", report: 15, resigned: 2, replay: 3, hostile: 25, authNew: 3, authDup: 1, authBad: 3, authConflict: 2, authOtherKey: 1, authBanned: 1, regAgain: 3, impact: 5, clock: 10, tick: 5, stats: 12, restart: 4, syncq: 4},
}

func init() {
	for name := range profiles {
		n := name
		core.Register(n, func(seed uint64, tier, out string) (*core.Result, error) {
			return shardedServerSuite(n, seed, tier, out, func(res *core.Result, r *core.RNG, tier, out string) error {
				return opsWorker(n, res, r, tier, out)
			})
		})
	}
}

// a random history under a profile
func opsHistory(res *core.Result, r *core.RNG, p profile, http bool, nops int) (*sim, error) {
	k := r.Intn(3)
	now0 := uint32(r.Intn(1984))
	if k > 0 {
		now0 = uint32(2016*k + 1984 + r.Intn(2000))
	}
	if p.name == "crash" {
		srv.CaptureFromStart = func(n int) bool { return true }
	}
	s, err := newSim(res, r, p.name, now0, http)
	srv.CaptureFromStart = nil
	if err != nil {
		return nil, err
	}
	if p.name == "crash" {
		s.crash = true
		// keep every crash point of the start-up/registration phase, then a sample
		seen := 0
		s.w.CaptureCrashPoints(func(n int) bool { seen++; return seen <= 14 || r.Intn(6) == 0 })
		pre := s.w.S.VerifSnapshot()
		s.opViews = append(s.opViews, opView{0, 0, pre, pre})
		s.hopViews = map[int]server.VerifSnap{}
		s.w.OnHop = func(n int) {
			if s.w.S != nil {
				s.hopViews[n] = s.w.S.VerifSnapshot()
			}
		}
	}
	// before registration: nothing may be authorized (C07)
	if p.name == "register" || p.name == "equip" || r.Chance(25) {
		s.authorizeVariant("before-registration")
		for _, kind := range []string{"wrong-signer", "altered-key", "prefixless"} {
			if r.Chance(50) {
				s.register(kind)
			}
		}
	}
	first := "valid"
	if p.name == "register" && r.Chance(30) {
		first = "other-valid"
	}
	s.register(first)
	nd := r.Range(1, 3)
	for i := 0; i < nd; i++ {
		s.addDevice([]uint64{1000, 5000, 1 << 20, 100}[r.Intn(4)])
	}
	for i := 0; i < nops && s.alive && s.w.Failed == ""; i++ {
		if s.crash {
			s.stepCrash(p)
		} else {
			s.step(p)
		}
		if i%20 == 19 && s.alive {
			s.w.SnapHop()
		}
	}
	return s, nil
}

func opsWorker(name string, res *core.Result, r *core.RNG, tier, out string) error {
	p := profiles[name]
	n, nops := 10, 45
	if name == "weeks" || name == "restart" {
		n, nops = 6, 40
	}
	if name == "crash" {
		n, nops = 3, 30
	}
	if tier == "thorough" {
		n *= 12
	}
	var items []string
	if core.Shard == 0 {
		for _, t := range tours[name] {
			s, err := t(res, r.Fork())
			if err != nil {
				if s != nil {
					s.w.Close()
				}
				return fmt.Errorf("tour: %v", err)
			}
			s.finish(&items)
		}
	}
	if (name == "slots" || name == "hostile") && core.Shard == 2%core.Shards {
		// distinct reports back to back on the real UDP socket: each slot is a function of the reports received for it
		if err := schedBurst(res, r.Fork()); err != nil {
			return err
		}
	}
	if (name == "slots" || name == "restart") && core.Shard == 3%core.Shards {
		// more accepted reports than the recent list holds, then a restart
		if err := longRunRestart(res, r.Fork()); err != nil {
			return err
		}
	}
	if name == "register" && core.Shard != 0 {
		// many simultaneous registrations, once per worker (shard 0 runs it as one of its tours)
		s, err := registerRaceTour(res, r.Fork())
		if err != nil {
			return err
		}
		s.finish(&items)
	}
	if name == "slots" && core.Shard == 4%core.Shards {
		// the report log is unwritable while deciding reports arrive
		if err := reportWriteFault(res, r.Fork()); err != nil {
			return err
		}
	}
	if name == "equip" && core.Shard == 1%core.Shards {
		// conflicting authorizations while the device's datagrams are in flight: the ban goes through, nothing dies
		if err := schedBanInFlight(res, r.Fork()); err != nil {
			return err
		}
	}
	if name == "hostile" && core.Shard == 3%core.Shards {
		// announcements of authorized servers while devices sync: both endpoints keep answering
		if err := schedListVsSync(res, r.Fork()); err != nil {
			return err
		}
	}
	if name == "hostile" && core.Shard == 1 {
		// conflicting authorizations while the device's datagrams are in flight (a crash here kills this worker)
		if err := schedBanInFlight(res, r.Fork()); err != nil {
			return err
		}
	}
	for i := 0; i < n; i++ {
		http := name == "equip" || name == "register" || (name == "hostile" && r.Chance(50))
		s, err := opsHistory(res, r.Fork(), p, http, nops)
		if err != nil {
			return err
		}
		s.finish(&items)
	}
	res.Required = requiredClasses[name]
	res.Rule = "profile " + name + ": weighted random operations (reports at clustered/boundary slots, re-signed and replayed reports, hostile datagrams, authorizations new/duplicate/bad/conflicting/for banned ids, registrations of every kind, impact rounds, clock advances with rotation-thread ticks, statistics queries of every week class with/without insert_false_negatives, restarts incl. catch-up) + scripted tours; oracles of the property text on the implementation's snapshots; non-trivial = a state-changing and an ignored/refused operation; distinct by full history"
	return writeServerCases(res, out, name, items)
}

var requiredClasses = map[string][]string{
	"slots":    {"dgram.report", "dgram.replay", "dgram.resigned-same-content", "outcome.changed", "slots.tour", "sched.burst", "slots.capacity-boundary", "long-run.restart", "report.write-fault"},
	"weeks":    {"rotate.rotated", "stats.archived", "stats.live1", "stats.live2", "stats.future", "stats.misaligned", "stats.misaligned-archived", "stats.huge", "stats.false-negatives", "impact.round", "impact.negative-zero", "rotate.clock-behind-window", "weeks.tour", "weeks.many"},
	"restart":  {"restart", "restart.catchup", "restart.tour", "restart.write-fault-tour", "register.write-fault", "long-run.restart"},
	"equip":    {"authorize.new", "authorize.duplicate", "authorize.bad-signature", "authorize.conflict-field", "authorize.conflict-other-key", "authorize.banned-id", "authorize.before-registration", "authorize.conflict-signed-zero", "equip.tour", "authorize.conflict-during-impact-job", "authorize.conflict-write-fault", "authorize.malleated-twin", "equip.k4-then-ban", "equip.key-reused-after-ban", "equip.id-zero", "sched.ban-in-flight"},
	"register": {"register.valid", "register.wrong-signer", "register.altered-key", "register.other-valid", "register.by-gca", "register.write-fault", "register.damaged-key-file", "register.zero-key", "register.after-archive-and-restart", "register.tour"},
	"hostile":  {"dgram.hostile-random", "stats.misaligned", "hostile.tour", "peer.ban-reannounce", "peer.stalled", "stats.during-rotation", "shutdown.idle-connections", "shutdown.http-partial-body"},
	"crash":    {"crash.image", "crash.recovered", "restart"},
}

var tours = map[string][]func(*core.Result, *core.RNG) (*sim, error){}
