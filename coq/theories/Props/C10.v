(* C10 -- Sync replies parse to the server's data and are accepted only when authentic.
   Only statements, each closed by [exact]; proofs live in ClientSync_lemmas.v.
   [verify key message signature] is arbitrary: no cryptographic assumption is used. *)
From Coq Require Import ZArith List Bool String.
From GCA Require Import Wrap Bytes CodecSync ClientSync ClientSync_lemmas ClientSyncOverflow.
Import ListNotations.
Open Scope Z_scope.

(* For every server view whose reply fits the 16-bit length prefix (locations <= 255 bytes
   are part of sview_wf), and every verify that accepts the signatures the view carries,
   the client extracts exactly the server's data from the bytes the server sends -- whatever
   follows them on the connection. *)
Theorem c10_agree (verify : bytes -> bytes -> bytes -> bool) v sg mykey skey gkey now extra :
  sview_wf v -> List.length sg = 64%nat ->
  Z.of_nat (List.length (reply_body v ++ sg)) < 65536 ->
  mykey = sv_key v ->
  verify skey (reply_body v) sg = true ->
  fresh now (sv_time v mod 2^64) = true ->
  view_signed verify gkey v ->
  client_recv verify 712 mykey skey gkey now (sync_reply v sg ++ extra) = POk (view_result v).
Proof. exact (reply_parses verify v sg mykey skey gkey now extra). Qed.

(* FINDING (reply-length-wraps): the size premise of c10_agree is not satisfied by every server
   state.  With 624 well-formed, correctly signed entries in the authorized-server list the
   reply has 65608 bytes, the uint16 prefix reads 72 and the client rejects the genuine reply;
   all other premises of c10_agree hold.  (Reproduced against the real server and client by the
   syncwire suite, state "reply-over-64k".) *)
Theorem c10_agree_unbounded_list_refuted :
  exists verify v sg mykey skey gkey now,
    sview_wf v /\ List.length sg = 64%nat /\ mykey = sv_key v /\ verify skey (reply_body v) sg = true /\
    fresh now (sv_time v mod 2^64) = true /\ view_signed verify gkey v /\
    65536 <= Z.of_nat (List.length (reply_body v ++ sg)) /\
    client_recv verify 712 mykey skey gkey now (sync_reply v sg) <> POk (view_result v).
Proof. exact reply_overflow_refuted. Qed.

(* bit i of the bitfield is set iff slot offset+i holds a record (banned slots hold 1) *)
Theorem c10_bitfield powers i : List.length powers = 4032%nat -> (i < 4032)%nat ->
  test_bit (bitfield_of powers) i = Some (0 <? nth i powers 0).
Proof. exact (bitfield_spec powers i). Qed.

(* unknown short id: the server sends one zero byte; the client reports a read error *)
Theorem c10_refusal (verify : bytes -> bytes -> bytes -> bool) mykey skey gkey now :
  client_recv verify 712 mykey skey gkey now sync_refusal = PErr ERead.
Proof. exact (refusal_rejected verify 712 mykey skey gkey now). Qed.

(* whatever arrives: if the client accepts, then the outer signature verifies under the
   contacted server's key, the signing time is within 24 h (Go's uint64 comparison), the reply
   is bound to this device's key, a non-blank new GCA comes with a signature of the CURRENT
   GCA over "EquipmentMigration" ++ device key ++ the order's bytes, and every server entry
   verifies under the new GCA (or the current one when there is no new GCA). *)
Theorem c10_reject (verify : bytes -> bytes -> bytes -> bool) mykey skey gkey now stream r :
  client_recv verify 712 mykey skey gkey now stream = POk r ->
  exists l0 l1 rest, stream = l0 :: l1 :: rest /\ le_dec [l0; l1] <= Z.of_nat (List.length rest) /\
    accepted verify mykey skey gkey now (firstn (Z.to_nat (le_dec [l0; l1])) rest) r.
Proof. exact (client_recv_sound verify mykey skey gkey now stream r). Qed.

(* the uint64 freshness test is the mathematical one whenever the clock is a plausible Unix time *)
Theorem c10_fresh_window now st : 86400 <= now -> now + 86400 < 2^64 -> fresh now st = true ->
  now - 86400 <= st <= now + 86400.
Proof. exact (fresh_math now st). Qed.

(* a round that accepts no reply leaves identity, server list and files untouched -- for the
   repaired and the unrepaired code alike *)
Theorem c10_frame (verify : bytes -> bytes -> bytes -> bool) ver mykey st att st' r tr :
  c_locked st = false -> sync_round verify ver mykey st att = (st', r, tr) -> r <> RTrue ->
  identity st' = identity st /\ c_files st' = c_files st.
Proof. exact (round_frame verify ver mykey st att st' r tr). Qed.

(* a round that returns true applied a reply that passed every check of c10_reject, received
   from a server of the client's list that is not banned *)
Theorem c10_round_accepts_only_checked (verify : bytes -> bytes -> bytes -> bool) mykey st att st' tr :
  c_locked st = false -> sync_round verify v_fixed mykey st att = (st', RTrue, tr) ->
  exists key now b rr, usable (c_servers st) key /\ accepted verify mykey key (c_gca st) now b rr.
Proof. exact (round_accepts_only_checked verify mykey st att st' tr). Qed.

(* non-vacuity of c10_agree: a view with a migration order satisfies all its premises *)
Example c10_agree_nonvacuous :
  sview_wf k7_view /\ Z.of_nat (List.length (reply_body k7_view ++ zeros 64)) < 65536 /\
  fresh 100000 (sv_time k7_view mod 2^64) = true /\ view_signed k7_verify (repeat Byte.x02 32) k7_view.
Proof.
  split; [|split; [vm_compute; reflexivity | split; [vm_compute; reflexivity|]]].
  - unfold sview_wf, k7_view, migration_wf; cbn. repeat split; try reflexivity; try constructor; vm_compute; congruence.
  - unfold view_signed; cbn. split; [reflexivity | constructor].
Qed.
