(* Everything together: the invariant (memory + disk agreement) holds along EVERY history,
   restarts included; restart equivalence (C04); monotone facts over full histories. *)
From Coq Require Import ZArith List Bool Lia.
From GCA Require Import Wrap Bytes Bytes_lemmas Codec Amap Amap_lemmas Timeslot Server ServerInv ServerInv_lemmas ServerInv2_lemmas
                        ServerC02_lemmas ServerDisk ServerDisk_lemmas ServerDiskInv_lemmas ServerRestart_lemmas
                        ServerReach_lemmas ServerAuth_lemmas ServerStats_lemmas.
Import ListNotations.
Open Scope Z_scope.
Set Default Proof Using "Type".
Notation length := List.length.

Section Full.
  Variable verify : bytes -> bytes -> bytes -> bool.
  Variable sign : bytes -> bytes -> bytes.
  Variable stats_sb : list devstat -> Z -> bytes.
  Local Notation step := (step verify sign stats_sb).
  Local Notation run := (run verify sign stats_sb).
  Local Notation catch_up := (catch_up sign stats_sb).

  Definition Inv (st : state) : Prop := MemInv (mm st) /\ DiskInv verify st.

  Definition op_ok (o : op) : Prop :=
    match o with
    | OpDatagram now _ => clock_ok now
    | OpRotateTick now => clock_ok now
    | OpStats tso => 0 <= tso
    | OpAuthorize a => auth_finite a
    | OpRestart _ now => clock_ok now
    | _ => True
    end.

  (* ---- catch-up: a run of rotations *)
  Lemma catch_up_full fuel : forall st now,
    Inv st -> clock_ok now -> now - offset (mm st) < catchup_bound + week_len * Z.of_nat fuel ->
    Inv (fst (catch_up fuel st now)) /\ snd (catch_up fuel st now) = Quiet /\
    now - offset (mm (fst (catch_up fuel st now))) < catchup_bound /\
    (gca (mm (fst (catch_up fuel st now))) = gca (mm st) /\ gca_avail (mm (fst (catch_up fuel st now))) = gca_avail (mm st)) /\
    bans (mm (fst (catch_up fuel st now))) = bans (mm st) /\
    equipment (mm (fst (catch_up fuel st now))) = equipment (mm st) /\
    (exists suffix, history (mm (fst (catch_up fuel st now))) = history (mm st) ++ suffix).
  Proof.
    induction fuel as [|f IH]; intros st now [I D] C F; cbn [Server.catch_up];
      pose proof (i_off_lo _ I) as Hlo; pose proof (i_off_hi _ I) as Hhi; unfold clock_ok in C;
      rewrite (i64_id now) by (unfold is_i64; lia); rewrite (i64_id (offset (mm st))) by (unfold is_i64; lia);
      destruct (Z.ltb_spec (now - offset (mm st)) catchup_bound) as [L|L].
    - cbn [fst snd]. split; [split; assumption|]. split; [reflexivity|]. split; [exact L|].
      split; [split; reflexivity|]. split; [reflexivity|]. split; [reflexivity|]. exists []. rewrite app_nil_r. reflexivity.
    - exfalso. unfold catchup_bound, week_len in *. lia.
    - cbn [fst snd]. split; [split; assumption|]. split; [reflexivity|]. split; [exact L|].
      split; [split; reflexivity|]. split; [reflexivity|]. split; [reflexivity|]. exists []. rewrite app_nil_r. reflexivity.
    - assert (Hb : offset (mm st) + week_len <= 2 ^ 32 - 8192) by (unfold catchup_bound, week_len in *; lia).
      destruct (rotate_inv sign stats_sb st I Hb) as (I' & Q & O).
      pose proof (rotate_disk verify sign stats_sb st I D Hb) as D'.
      destruct (rotation_exact_eq sign stats_sb st I Hb) as (s & E).
      destruct (rotate sign stats_sb st) as [st' o] eqn:R. cbn [fst snd] in *. subst o.
      destruct (IH st' now (conj I' D') C) as (A1 & A2 & A3 & (A4 & A4') & A5 & A6 & (suf & A7)).
      { rewrite O. unfold week_len in *. lia. }
      inversion E; subst st'. cbn [mm gca gca_avail bans equipment history] in *.
      split; [exact A1|]. split; [exact A2|]. split; [exact A3|]. split; [split; assumption|]. split; [exact A5|]. split; [exact A6|].
      exists (s :: suf). rewrite A7, <- app_assoc. reflexivity.
  Qed.

  Lemma fuel_enough st now : Inv st -> clock_ok now ->
    now - offset (mm st) < catchup_bound + week_len * Z.of_nat (catchup_fuel now).
  Proof.
    clear sign stats_sb. intros [I _] C. pose proof (i_off_lo _ I). unfold catchup_fuel, catchup_bound, week_len, clock_ok in *.
    rewrite Z2Nat.id by (assert (0 <= now / 2016) by (apply Z.div_pos; lia); lia).
    pose proof (Z.div_mod now 2016 ltac:(lia)). pose proof (Z.mod_pos_bound now 2016 ltac:(lia)). lia.
  Qed.

  (* ---- C04: restart succeeds and yields an equivalent state, then catches up *)
  Theorem restart_spec st fresh now : Inv st -> clock_ok now ->
    exists st1, load verify (dd st) fresh = LOk st1 /\ mem_equiv (mm st1) (mm st) /\ Inv st1 /\
      restart verify sign stats_sb st fresh now (catchup_fuel now) = catch_up (catchup_fuel now) st1 now /\
      Inv (fst (catch_up (catchup_fuel now) st1 now)) /\ snd (catch_up (catchup_fuel now) st1 now) = Quiet.
  Proof.
    intros [I D] C. destruct (load_spec verify st fresh I D) as (st1 & L & ME & I1 & D1).
    exists st1. split; [exact L|]. split; [exact ME|]. split; [split; assumption|].
    split; [unfold restart; rewrite L; reflexivity|].
    destruct (catch_up_full (catchup_fuel now) st1 now (conj I1 D1) C (fuel_enough st1 now (conj I1 D1) C)) as (A1 & A2 & _).
    split; assumption.
  Qed.

  (* ---- the invariant along every history *)
  Theorem step_inv st o : Inv st -> op_ok o -> Inv (fst (step st o)) /\ snd (step st o) <> Panic.
  Proof.
    intros [I D] K. destruct o as [now d|k s|a|tso|now|id ts v|fresh now]; cbn [Server.step op_ok] in *.
    - destruct (udp_inv verify st now d I) as [I' Q]. split; [split; [exact I' | apply udp_disk; assumption] | rewrite Q; discriminate].
    - destruct (register_inv verify st k s I) as [I' Q]. split; [split; [exact I' | apply register_disk; assumption] | exact Q].
    - destruct (authorize_inv verify st a I) as [I' Q]. split; [split; [exact I' | apply authorize_disk; assumption] | exact Q].
    - destruct (stats_query_inv sign stats_sb st tso I K) as [E NP]. rewrite E. split; [split; assumption | exact NP].
    - destruct (rotate_tick_inv sign stats_sb st now I K) as [I' Q]. split; [|rewrite Q; discriminate].
      split; [exact I'|]. unfold rotate_tick, rotate_trigger in *.
      pose proof (i_off_lo _ I). pose proof (i_off_hi _ I). unfold clock_ok in K.
      rewrite (i64_id now) by (unfold is_i64; lia). rewrite (i64_id (offset (mm st))) by (unfold is_i64; lia).
      destruct (Z.ltb_spec 3200 (now - offset (mm st))) as [T|T]; [|exact D].
      apply rotate_disk; [exact I | exact D | unfold week_len; lia].
    - destruct (impact_inv st id ts v I) as [I' Q]. split; [split; [exact I' | apply impact_disk; exact D] | rewrite Q; discriminate].
    - destruct (restart_spec st fresh now (conj I D) K) as (st1 & _ & _ & _ & E & I2 & Q). rewrite E.
      split; [exact I2 | rewrite Q; discriminate].
  Qed.

  Theorem run_inv ops : forall st, Inv st -> Forall op_ok ops ->
    Inv (run st ops) /\ Forall (fun o => o <> Panic) (outs verify sign stats_sb st ops).
  Proof.
    induction ops as [|o ops IH]; intros st I F.
    - split; [exact I | constructor].
    - inversion F as [|? ? K F']; subst. destruct (step_inv st o I K) as [I' NP].
      destruct (IH _ I' F') as [I'' NPs]. rewrite run_cons. split; [exact I''|].
      cbn [outs]. constructor; assumption.
  Qed.

  (* the first start satisfies the full invariant *)
  Theorem first_start_full tk fresh now st0 : clock_ok now ->
    load verify (fresh_disk tk) fresh = LOk st0 ->
    Inv (fst (catch_up (catchup_fuel now) st0 now)) /\ snd (catch_up (catchup_fuel now) st0 now) = Quiet.
  Proof.
    intros C L. destruct (first_start_inv verify sign stats_sb tk fresh now st0 C L) as (I0 & _ & _).
    cbn in L. inversion L; subst st0; clear L.
    assert (D0 : DiskInv verify {| mm := {| equipment := []; index := []; bans := []; reports := []; impact := [];
              offset := 0; history := []; gca := zeros 32; gca_avail := false; tempkey := pad 32 tk; skeys := fresh |};
            dd := {| d_keys := Some fresh; d_temp := Some tk; d_gca := None; d_auths := Some []; d_reports := Some []; d_stats := Some [] |} |}).
    { constructor; cbn.
      - reflexivity.
      - exists tk. split; reflexivity.
      - reflexivity.
      - discriminate.
      - reflexivity.
      - reflexivity.
      - exists []. split; [reflexivity|]. split; [intros a []|]. split; [reflexivity|]. repeat split.
      - intros id a H. discriminate.
      - exists []. split; [reflexivity|]. split; [intros r []|]. intros id a w H. discriminate. }
    destruct (catch_up_full (catchup_fuel now) _ now (conj I0 D0) C (fuel_enough _ now (conj I0 D0) C)) as (A1 & A2 & _).
    split; assumption.
  Qed.

  (* ---- monotone facts over full histories (restarts included) *)
  Lemma restart_facts st fresh now : Inv st -> clock_ok now ->
    let st' := fst (step st (OpRestart fresh now)) in
    (gca (mm st') = gca (mm st) /\ gca_avail (mm st') = gca_avail (mm st)) /\
    (forall id, zin id (bans (mm st')) = zin id (bans (mm st))) /\
    (forall id, zget id (equipment (mm st')) = zget id (equipment (mm st))) /\
    (exists suffix, history (mm st') = history (mm st) ++ suffix).
  Proof.
    intros I C. cbn [Server.step]. destruct (restart_spec st fresh now I C) as (st1 & _ & ME & I1 & E & _ & _). rewrite E.
    destruct (catch_up_full (catchup_fuel now) st1 now I1 C (fuel_enough st1 now I1 C)) as (_ & _ & _ & (A4 & A4') & A5 & A6 & (suf & A7)).
    destruct ME as [M1 M2 M3 M4 M5 M6 M7 M8 M9 M10 M11].
    repeat split.
    - congruence.
    - congruence.
    - intros id. rewrite A5. apply M9.
    - intros id. rewrite A6. apply M7.
    - exists suf. rewrite A7, M2. reflexivity.
  Qed.

  Theorem gca_irreversible_full ops : forall st, Inv st -> Forall op_ok ops ->
    gca_avail (mm st) = true ->
    gca_avail (mm (run st ops)) = true /\ gca (mm (run st ops)) = gca (mm st).
  Proof.
    induction ops as [|o ops IH]; intros st I F G; [auto|].
    inversion F as [|? ? K F']; subst. rewrite run_cons. destruct (step_inv st o I K) as [I' _].
    assert (S : gca_avail (mm (fst (step st o))) = true /\ gca (mm (fst (step st o))) = gca (mm st)).
    { destruct o as [now d|k s|a|tso|now|id ts v|fresh now];
        try (apply (step_gca_fixed verify sign stats_sb); [intros f n; discriminate | exact G]).
      destruct (restart_facts st fresh now I K) as ((A & B) & _). split; congruence. }
    destruct S as [G1 K1]. destruct (IH _ I' F' G1) as [G2 K2]. split; [exact G2 | congruence].
  Qed.

  Theorem ban_permanent_full ops : forall st id, Inv st -> Forall op_ok ops ->
    zin id (bans (mm st)) = true -> zin id (bans (mm (run st ops))) = true.
  Proof.
    induction ops as [|o ops IH]; intros st id I F B; [exact B|].
    inversion F as [|? ? K F']; subst. rewrite run_cons. destruct (step_inv st o I K) as [I' _].
    apply IH; [exact I' | exact F'|].
    destruct o as [now d|k s|a|tso|now|i ts v|fresh now];
      try (apply (step_bans_mono verify sign stats_sb); [intros f n; discriminate | exact B]).
    destruct (restart_facts st fresh now I K) as (_ & A & _). rewrite A. exact B.
  Qed.

  Theorem archive_immutable_full ops : forall st k s, Inv st -> Forall op_ok ops ->
    nth_error (history (mm st)) k = Some s -> nth_error (history (mm (run st ops))) k = Some s.
  Proof.
    induction ops as [|o ops IH]; intros st k s I F N; [exact N|].
    inversion F as [|? ? K F']; subst. rewrite run_cons. destruct (step_inv st o I K) as [I' _].
    apply IH; [exact I' | exact F'|].
    assert (E : exists suf, history (mm (fst (step st o))) = history (mm st) ++ suf).
    { destruct o as [now d|k0 s0|a|tso|now|i ts v|fresh now];
        try (apply (step_extends verify sign stats_sb); intros f n; discriminate).
      destruct (restart_facts st fresh now I K) as (_ & _ & _ & A). exact A. }
    destruct E as [suf E]. rewrite E. rewrite nth_error_app1; [exact N | apply nth_error_Some; congruence].
  Qed.

  Lemma no_accept_when_registered_full ops : forall st, Inv st -> Forall op_ok ops -> gca_avail (mm st) = true ->
    count_accepted_registrations verify sign stats_sb st ops = 0%nat.
  Proof.
    induction ops as [|o ops IH]; intros st I F G; [reflexivity|].
    inversion F as [|? ? K F']; subst. cbn [count_accepted_registrations].
    destruct (step_inv st o I K) as [I' _].
    destruct (gca_irreversible_full [o] st I (Forall_cons _ K (Forall_nil _)) G) as [G1 _].
    change (Server.run verify sign stats_sb st [o]) with (fst (step st o)) in G1.
    rewrite (IH _ I' F' G1).
    destruct o as [now d|k s|a|tso|now|id ts v|fresh now]; try reflexivity.
    cbn [Server.step]. unfold register. rewrite G. reflexivity.
  Qed.

  Theorem at_most_one_registration_full ops : forall st, Inv st -> Forall op_ok ops ->
    (count_accepted_registrations verify sign stats_sb st ops <= 1)%nat.
  Proof.
    induction ops as [|o ops IH]; intros st I F; [cbn; lia|].
    inversion F as [|? ? K F']; subst. cbn [count_accepted_registrations].
    destruct (step_inv st o I K) as [I' _].
    destruct o as [now d|k s|a|tso|now|id ts v|fresh now];
      try (specialize (IH _ I' F'); lia).
    cbn [Server.step] in *. destruct (register verify st k s) as [st' o'] eqn:R. cbn [fst snd] in *.
    destruct o'; try (specialize (IH st' I' F'); lia).
    destruct (register_outcomes verify st k s) as [A|A]; rewrite R in A; cbn [snd] in A; [|discriminate].
    inversion A; subst. apply register_gate in R. destruct R as (_ & _ & _ & G' & _).
    rewrite (no_accept_when_registered_full ops st' I' F' G'). lia.
  Qed.

  (* restart right after restart changes nothing observable (idempotence) *)
  Theorem restart_idempotent st fresh now : Inv st -> clock_ok now ->
    let st1 := fst (step st (OpRestart fresh now)) in
    let st2 := fst (step st1 (OpRestart fresh now)) in
    mem_equiv (mm st2) (mm st1).
  Proof.
    intros I C st1 st2. subst st2.
    assert (I1 : Inv st1) by (apply (step_inv st (OpRestart fresh now) I C)).
    cbn [Server.step]. destruct (restart_spec st1 fresh now I1 C) as (sl & L & ME & Il & E & _ & _). rewrite E.
    (* after the first restart the clock needs no further catch-up: the second catch-up is the identity *)
    assert (Q : now - offset (mm st1) < catchup_bound).
    { subst st1. cbn [Server.step]. destruct (restart_spec st fresh now I C) as (s0 & _ & _ & I0 & E0 & _ & _). rewrite E0.
      apply (catch_up_full (catchup_fuel now) s0 now I0 C (fuel_enough s0 now I0 C)). }
    assert (Z0 : fst (catch_up (catchup_fuel now) sl now) = sl).
    { destruct (catchup_fuel now); cbn [Server.catch_up];
        pose proof (i_off_lo _ (proj1 Il)); pose proof (i_off_hi _ (proj1 Il)); unfold clock_ok in C;
        rewrite (i64_id now) by (unfold is_i64; lia); rewrite (i64_id (offset (mm sl))) by (unfold is_i64; lia);
        rewrite (e_off _ _ ME); destruct (Z.ltb_spec (now - offset (mm st1)) catchup_bound); try reflexivity; lia. }
    rewrite Z0. exact ME.
  Qed.
End Full.
