(* C16 -- energy readings become report values by fixed rules, for every file
   content.  Only statements, each closed by [exact]; proofs are in
   ClientEnergy_lemmas.v.

   The model (ClientEnergy.v) starts from the rows Go's encoding/csv delivers
   and from strconv's verdict on every field; [G] is glow.GenesisTime, [mult]
   and [div] the calibration values (binary64), arithmetic is Flocq's IEEE-754
   binary64 with round-to-nearest-even.  The reader models the code AFTER the
   repair of D11 ([energy_rows_unchecked] is the loop body before it). *)
From Coq Require Import ZArith List Bool Reals.
From Flocq Require Import Core.Core IEEE754.BinarySingleNaN IEEE754.Binary IEEE754.Bits.
From GCA Require Import Wrap Timeslot ClientEnergy ClientEnergy_lemmas.
Import ListNotations.
Open Scope Z_scope.

(* no row shape panics (rows with 0, 1, 2, 3 ... fields, any field contents); the records are the
   concatenation, in file order, of what each delivered row yields *)
Theorem c16_total : forall G mult div rows,
  energy_rows G mult div rows <> Panic /\
  energy_rows G mult div rows = Records (concat (map (row_records G mult div) rows)).
Proof. exact (fun G m d rows => conj (energy_rows_no_panic G m d rows) (energy_rows_total G m d rows)). Qed.

(* before the repair a one-field row with a usable timestamp did panic (D11) *)
Theorem c16_unchecked_panics : forall G mult div t, G <= t ->
  energy_rows_unchecked G mult div
    [[{| f_int := None; f_header := true; f_float := None |}];
     [{| f_int := Some t; f_header := false; f_float := None |}]] = Panic.
Proof. exact unchecked_panics. Qed.

(* a row with at least two fields and an integer timestamp t, G <= t < G+2^32, yields exactly one
   record, for the 5-minute slot containing t; earlier timestamps, unusable timestamps and rows with
   fewer than two fields yield none *)
Theorem c16_slot : forall G mult div f0 f1 rest,
  (forall t, f_int f0 = Some t -> G <= t < G + 2^32 ->
     row_records G mult div (f0 :: f1 :: rest) =
     [{| e_slot := (t - G) / 300; e_val := energy_value mult div (f_float f1) |}]) /\
  (forall t, f_int f0 = Some t -> t < G -> row_records G mult div (f0 :: f1 :: rest) = []) /\
  (f_int f0 = None -> row_records G mult div (f0 :: f1 :: rest) = []) /\
  (forall r, (length r < 2)%nat -> row_records G mult div r = []).
Proof.
  exact (fun G m d f0 f1 rest =>
           conj (fun t => slot_rule G m d f0 f1 rest t)
          (conj (fun t => before_genesis_skipped G m d f0 f1 rest t)
          (conj (bad_timestamp_skipped G m d f0 f1 rest)
                (short_row_skipped G m d)))).
Qed.

(* the value: 3 for an unparseable reading; 2 for a finite reading of magnitude below 24 (strict);
   otherwise the IEEE product-then-quotient r = (mult * f) / div, and when r is finite with
   |r| < 2^63 the record carries trunc(r) in two's complement (mod 2^64) *)
Theorem c16_value : forall (mult div : binary64) (pf : option Z),
  (pf = None -> energy_value mult div pf = VExact 3) /\
  (forall bits, pf = Some bits -> let f := b64_of_bits bits in
     (is_finite 53 1024 f = true -> (Rabs (B2R 53 1024 f) < 24)%R -> energy_value mult div pf = VExact 2) /\
     ((is_finite 53 1024 f = false \/ (24 <= Rabs (B2R 53 1024 f))%R) ->
        let r := scaled mult div f in
        energy_value mult div pf = to_uint64 r /\
        (is_finite 53 1024 r = true -> (Rabs (B2R 53 1024 r) < IZR (2^63))%R ->
           energy_value mult div pf = VExact ((Ztrunc (B2R 53 1024 r)) mod 2^64)))).
Proof. exact value_rule. Qed.

(* calibration file: absent = defaults; first line multiplier, second line divider, further lines
   ignored; every other shape is an error, and only those shapes are accepted *)
Theorem c16_ct : forall dm dd : Z,
  ct_settings dm dd CtAbsent = CtOk dm dd /\
  ct_settings dm dd CtUnreadable = CtErr CtOpen /\
  (forall m d rest, ct_settings dm dd (CtLines (Some m :: Some d :: rest)) = CtOk m d) /\
  (forall l m d, ct_settings dm dd (CtLines l) = CtOk m d -> exists rest, l = Some m :: Some d :: rest) /\
  ct_settings dm dd (CtLines []) = CtErr CtNoFirst /\
  (forall rest, ct_settings dm dd (CtLines (None :: rest)) = CtErr CtBadFirst) /\
  (forall m, ct_settings dm dd (CtLines [Some m]) = CtErr CtNoSecond) /\
  (forall m rest, ct_settings dm dd (CtLines (Some m :: None :: rest)) = CtErr CtBadSecond).
Proof. exact ct_rule. Qed.

(* ---- non-vacuity and the documented edge (K5) ------------------------------ *)
(* -2000 * 37.5 / 1000 = -75 -> 2^64 - 75 ; 23.5 -> 2 ; unparseable -> 3 *)
Example c16_value_example :
  let m := b64_of_bits 0xC09F400000000000 in let d := b64_of_bits 0x408F400000000000 in
  energy_value m d (Some 0x4042C00000000000) = VExact (2^64 - 75) /\
  energy_value m d (Some 0x4037800000000000) = VExact 2 /\
  energy_value m d None = VExact 3 /\
  energy_value m d (Some 0x7FF8000000000001) = VUnspec.
Proof. repeat split; vm_compute; reflexivity. Qed.

Example c16_rows_example :
  let fld a b c := {| f_int := a; f_header := b; f_float := c |} in
  energy_rows 1000 (b64_of_bits 0x408F400000000000) (b64_of_bits 0x408F400000000000)
    [[fld None true None; fld None false None];
     [fld (Some 1000) false (Some 0x408F400000000000); fld None false (Some 0x4059000000000000)];
     [fld (Some 1299) false None];
     [fld (Some 999) false None; fld (Some 5) false (Some 0x4014000000000000)];
     [fld (Some 1300) false None; fld None false None; fld None false None]]
  = Records [{| e_slot := 0; e_val := VExact 100 |}; {| e_slot := 1; e_val := VExact 3 |}].
Proof. vm_compute. reflexivity. Qed.

(* K5, outside the stated domain: a timestamp G + 2^32 + 600 belongs to slot 14316559 but is
   reported for slot 2 (uint32 truncation in glow.UnixToTimeslot) *)
Example c16_slot_wraps_beyond_domain : forall G mult div f0 f1,
  f_int f0 = Some (G + 2^32 + 600) ->
  exists v, row_records G mult div [f0; f1] = [{| e_slot := 2; e_val := v |}] /\
            (G + 2^32 + 600 - G) / 300 = 14316559.
Proof. exact slot_wrap_example. Qed.
