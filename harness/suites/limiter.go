package suites

// C19: glow.RateLimiter.Allow against the Gallina model RateLimiter.v.
//
// Allow reads time.Now() itself: the sequential histories are placed on the time
// grid of eventlog.go (tick T, rate = (K + 1/2) T, every call in the first half
// of its cell, histories whose stamps leave the cell are discarded and
// repeated), so "t.After(now-rate)" is decided by cell numbers: a call admitted
// in cell a still counts in cell b iff b - a <= K.  The model runs in half
// ticks: instant 2n, rate 2K+1 (rate 0 is also exercised: nothing ever counts).
//
// A supporting concurrent test (1..64 goroutines) is judged by the property
// oracle alone, with interval arithmetic on each call's before/after stamps:
// only certain violations count.

import (
	"fmt"
	"sort"
	"sync"
	"sync/atomic"
	"time"

	"github.com/glowlabs-org/gca-backend/glow"
	"verifharness/core"
)

func init() { core.Register("limiter", limiterSuite) }

type rlCfg struct {
	Limit int  `json:"limit"`
	K     int  `json:"k"`         // rate = (K + 1/2) ticks
	Zero  bool `json:"rate_zero"` // rate = 0
}

func (c rlCfg) rate(tick time.Duration) time.Duration {
	if c.Zero {
		return 0
	}
	return time.Duration(c.K)*tick + tick/2
}
func (c rlCfg) modelRate() int64 {
	if c.Zero {
		return 0
	}
	return 2*int64(c.K) + 1
}

type rlBurst struct {
	Cell int `json:"cell"`
	N    int `json:"n"`
}

type rlHist struct {
	Cfg    rlCfg     `json:"cfg"`
	Bursts []rlBurst `json:"bursts"`
	Class  string    `json:"class"`
}

type rlCall struct {
	Cell   int           `json:"cell"`
	T0, T1 time.Duration `json:"-"`
	Ok     bool          `json:"ok"`
}

func rlRun(h rlHist, tick time.Duration) ([]rlCall, bool) {
	g := tgGrid{base: time.Now().Add(tick / 2), tick: tick}
	r := glow.NewRateLimiter(h.Cfg.Limit, h.Cfg.rate(tick))
	var calls []rlCall
	for _, b := range h.Bursts {
		if _, in := g.enter(b.Cell); !in {
			return nil, false
		}
		for j := 0; j < b.N; j++ {
			t0 := time.Now()
			ok := r.Allow()
			t1 := time.Now()
			if !g.inHalf(b.Cell, t1) {
				return nil, false
			}
			calls = append(calls, rlCall{Cell: b.Cell, T0: t0.Sub(g.base), T1: t1.Sub(g.base), Ok: ok})
		}
	}
	return calls, true
}

func rlRunRetry(h rlHist, baseTick time.Duration, discarded *int64) ([]rlCall, time.Duration, bool) {
	for attempt := 0; attempt < 12; attempt++ {
		tick := tgTick(baseTick, attempt)
		calls, ok := rlRun(h, tick)
		if ok {
			return calls, tick, true
		}
		atomic.AddInt64(discarded, 1)
		atomic.AddInt64(&tgDiscards, 1)
	}
	return nil, 0, false
}

// rlOracle: the property on the caller-side stamps alone.  Each call read its instant somewhere in [T0, T1].
// sequential: calls are in their real order (one goroutine); otherwise "c before r" is only known when
// possible (c.T0 <= r.T1).  Returns certain violations only.
func rlOracle(calls []rlCall, limit int, rate time.Duration, sequential bool) []elFail {
	var fs []elFail
	var adm []int
	for i, c := range calls {
		if c.Ok {
			adm = append(adm, i)
		}
	}
	// safety: limit+1 admitted calls that certainly lie within less than one rate
	if rate > 0 {
		lim := limit
		if lim < 0 {
			lim = 0
		}
		byT0 := append([]int{}, adm...)
		sort.Slice(byT0, func(a, b int) bool { return calls[byT0[a]].T0 < calls[byT0[b]].T0 })
	outer:
		for x, a := range byT0 {
			n := 0
			for _, c := range byT0[x:] {
				if calls[c].T1-calls[a].T0 < rate {
					n++
					if n > lim {
						fs = append(fs, elFail{fmt.Sprintf("%d admitted calls within %v, less than the window %v (limit %d)", n, calls[c].T1-calls[a].T0, rate, limit), "safety"})
						break outer
					}
				}
			}
		}
	}
	// liveness: a rejected call although fewer than limit admitted calls can lie in the preceding window
	for i, r := range calls {
		if r.Ok {
			continue
		}
		possible := 0
		for _, j := range adm {
			c := calls[j]
			before := j < i
			if !sequential {
				before = c.T0 <= r.T1
			}
			if j != i && before && c.T1 > r.T0-rate {
				possible++
			}
		}
		if possible < limit {
			fs = append(fs, elFail{fmt.Sprintf("call rejected although at most %d admitted calls can lie in the preceding window (limit %d)", possible, limit), "liveness"})
			break
		}
	}
	return fs
}

// ---------------------------------------------------------------- generators

func rlScenarios() []rlHist {
	B := func(cell, n int) rlBurst { return rlBurst{cell, n} }
	var hs []rlHist
	add := func(class string, c rlCfg, bs ...rlBurst) { hs = append(hs, rlHist{Cfg: c, Bursts: bs, Class: class}) }
	add("scenario.burst-over-limit", rlCfg{Limit: 3, K: 2}, B(1, 5), B(3, 1), B(4, 4), B(7, 2))
	add("scenario.burst-over-limit", rlCfg{Limit: 8, K: 1}, B(1, 20), B(2, 3), B(3, 9))
	add("scenario.paced-inside-window", rlCfg{Limit: 1, K: 2}, B(1, 1), B(3, 1), B(5, 1), B(6, 1), B(8, 1))
	add("scenario.paced-outside-window", rlCfg{Limit: 1, K: 2}, B(1, 1), B(4, 1), B(7, 1), B(10, 1))
	add("scenario.paced-inside-window", rlCfg{Limit: 2, K: 3}, B(1, 1), B(2, 1), B(4, 1), B(5, 1), B(7, 1), B(8, 1), B(9, 1))
	add("scenario.paced-outside-window", rlCfg{Limit: 2, K: 1}, B(1, 2), B(3, 2), B(5, 2), B(7, 3))
	add("scenario.tight-loop", rlCfg{Limit: 2, K: 4}, B(1, 1), B(2, 1), B(3, 1), B(4, 1), B(5, 1), B(6, 1), B(7, 1), B(8, 1), B(9, 1), B(10, 1), B(11, 1), B(12, 1))
	add("scenario.limit-zero", rlCfg{Limit: 0, K: 1}, B(1, 2), B(5, 1))
	add("scenario.limit-negative", rlCfg{Limit: -1, K: 1}, B(1, 2), B(5, 1))
	add("scenario.rate-zero", rlCfg{Limit: 1, Zero: true}, B(1, 4), B(2, 1))
	add("scenario.rate-zero", rlCfg{Limit: 0, Zero: true}, B(1, 2))
	add("scenario.rate-negative", rlCfg{Limit: 2, K: -1}, B(1, 5), B(2, 1))
	add("scenario.window-of-half-a-tick", rlCfg{Limit: 2, K: 0}, B(1, 3), B(2, 3), B(4, 1))
	return hs
}

var rlLimits = []int{0, 1, 2, 3, 5, 8, 20, -1}
var rlKs = []int{0, 1, 2, 4, -1}

func rlRandomHistory(rng *core.RNG, c rlCfg, class string) rlHist {
	h := rlHist{Cfg: c, Class: class}
	cur := 0
	nb := rng.Range(12, 36)
	lim := c.Limit
	if lim < 1 {
		lim = 1
	}
	for i := 0; i < nb; i++ {
		g := 1
		switch rng.Intn(8) {
		case 0:
			g = c.K
		case 1:
			g = c.K + 1
		case 2:
			g = 2*c.K + 1
		case 3:
			g = 1 + rng.Intn(c.K+3)
		}
		if g < 1 {
			g = 1
		}
		cur += g
		n := 1
		switch rng.Intn(7) {
		case 0:
			n = lim
		case 1:
			n = lim + 1
		case 2:
			n = 2
		case 3:
			n = 1 + rng.Intn(2*lim+1)
		}
		if n > 45 {
			n = 45
		}
		h.Bursts = append(h.Bursts, rlBurst{cur, n})
	}
	return h
}

func rlEnumerate(maxLen int) []rlHist {
	c := rlCfg{Limit: 2, K: 1}
	type sym struct{ gap, n int }
	alpha := []sym{{1, 1}, {2, 1}, {1, 3}, {2, 3}}
	var hs []rlHist
	var rec func(p []sym)
	rec = func(p []sym) {
		if len(p) > 0 {
			h := rlHist{Cfg: c, Class: "enumerated"}
			cur := 0
			for _, s := range p {
				cur += s.gap
				h.Bursts = append(h.Bursts, rlBurst{cur, s.n})
			}
			hs = append(hs, h)
		}
		if len(p) == maxLen {
			return
		}
		for _, s := range alpha {
			rec(append(append([]sym{}, p...), s))
		}
	}
	rec(nil)
	return hs
}

// ---------------------------------------------------------------- concurrent supporting test

type rlConc struct {
	G, Limit int
	Rate     time.Duration
	PerG     int
}

func rlRunConcurrent(rng *core.RNG, cc rlConc) []rlCall {
	r := glow.NewRateLimiter(cc.Limit, cc.Rate)
	base := time.Now()
	out := make([][]rlCall, cc.G)
	rngs := make([]*core.RNG, cc.G)
	for g := range rngs {
		rngs[g] = rng.Fork()
	}
	var wg sync.WaitGroup
	start := make(chan struct{})
	for g := 0; g < cc.G; g++ {
		wg.Add(1)
		go func(g int) {
			defer wg.Done()
			rg := rngs[g]
			<-start
			for i := 0; i < cc.PerG; i++ {
				switch rg.Intn(4) {
				case 0: // tight
				case 1:
					time.Sleep(time.Duration(rg.Intn(int(cc.Rate/4) + 1)))
				case 2:
					time.Sleep(cc.Rate - time.Duration(rg.Intn(int(cc.Rate/8)+1))) // paced just below the window
				default:
					time.Sleep(cc.Rate + time.Duration(rg.Intn(int(cc.Rate/8)+1))) // just above
				}
				t0 := time.Since(base)
				ok := r.Allow()
				t1 := time.Since(base)
				out[g] = append(out[g], rlCall{T0: t0, T1: t1, Ok: ok})
			}
		}(g)
	}
	close(start)
	wg.Wait()
	var all []rlCall
	for _, o := range out {
		all = append(all, o...)
	}
	return all
}

// ---------------------------------------------------------------- the suite

func limiterSuite(seed uint64, tier, outDir string) (*core.Result, error) {
	res := core.NewResult("limiter", seed, tier)
	rng := core.NewRNG(seed)
	baseTick := tgBaseTick()
	nRandom, workers, perG := 200, 64, 30
	if tier == "thorough" {
		nRandom, workers, perG = 4200, 256, 120
	}
	hs := rlScenarios()
	// every (limit, window) of the grid, plus rate 0
	i := 0
	for len(hs) < len(rlScenarios())+nRandom {
		c := rlCfg{Limit: rlLimits[i%len(rlLimits)], K: rlKs[(i/len(rlLimits))%len(rlKs)]}
		if i%41 == 40 {
			c = rlCfg{Limit: rlLimits[i%len(rlLimits)], Zero: true}
		}
		i++
		hs = append(hs, rlRandomHistory(rng.Fork(), c, fmt.Sprintf("random.limit=%d.k=%d.zero=%v", c.Limit, c.K, c.Zero)))
	}
	if tier == "thorough" {
		hs = append(hs, rlEnumerate(6)...)
	}
	type out struct {
		calls []rlCall
		tick  time.Duration
		ok    bool
	}
	outs := make([]out, len(hs))
	var discarded int64
	tgParallel(len(hs), workers, func(i int) {
		calls, tick, ok := rlRunRetry(hs[i], baseTick, &discarded)
		outs[i] = out{calls, tick, ok}
	})
	var items []string
	failed := map[string]bool{}
	for i, h := range hs {
		o := outs[i]
		if !o.ok {
			res.Count("given-up")
			continue
		}
		res.Count(h.Class)
		var cs []string
		nAdm, nRej := 0, 0
		for _, c := range o.calls {
			cs = append(cs, core.Pair(core.Z(2*int64(c.Cell)), core.Bool(c.Ok)))
			if c.Ok {
				nAdm++
			} else {
				nRej++
			}
		}
		res.Distribution["calls.admitted"] += nAdm
		res.Distribution["calls.rejected"] += nRej
		item := core.Tuple(core.Z(int64(h.Cfg.Limit)), core.Z(h.Cfg.modelRate()), core.List(cs))
		items = append(items, item)
		res.Case(map[string]interface{}{"class": h.Class, "cfg": h.Cfg, "bursts": h.Bursts, "tick_ms": float64(o.tick) / 1e6, "admitted": nAdm, "rejected": nRej}, item, nAdm > 0 && nRej > 0)
		for _, f := range rlOracle(o.calls, h.Cfg.Limit, h.Cfg.rate(o.tick), true) {
			if !failed[f.Key] {
				failed[f.Key] = true
				res.Fail(f.What, f.Key, map[string]interface{}{"history": h, "tick_ms": float64(o.tick) / 1e6, "answers": o.calls})
			}
		}
	}
	res.Discarded = int(discarded)
	shard, nshard := []string{}, 0
	flush := func() error {
		if len(shard) == 0 {
			return nil
		}
		name := "cases_limiter"
		if nshard > 0 {
			name = fmt.Sprintf("cases_limiter_%d", nshard)
		}
		nshard++
		err := res.CasesFile(outDir, name, "From Coq Require Import ZArith List Bool.\nFrom GCA Require Import RunLib RateLimiter RateLimiterRun.", "rl_case", shard, "rl_mismatches")
		shard = nil
		return err
	}
	for _, it := range items {
		shard = append(shard, it)
		if len(shard) >= 900 {
			if err := flush(); err != nil {
				return nil, err
			}
		}
	}
	if err := flush(); err != nil {
		return nil, err
	}

	// supporting: concurrent callers, oracle only
	concCfgs := []struct {
		limit int
		rate  time.Duration
	}{{3, 8 * time.Millisecond}, {1, 5 * time.Millisecond}, {10, 20 * time.Millisecond}, {50, 30 * time.Millisecond}}
	for _, g := range []int{1, 2, 4, 8, 16, 32, 64} {
		for ci, cc := range concCfgs {
			if tier != "thorough" && (ci+g)%2 == 1 && g != 1 && g != 64 {
				continue
			}
			per := perG
			if g >= 32 {
				per = perG / 2
			}
			calls := rlRunConcurrent(rng.Fork(), rlConc{G: g, Limit: cc.limit, Rate: cc.rate, PerG: per})
			nAdm := 0
			for _, c := range calls {
				if c.Ok {
					nAdm++
				}
			}
			class := fmt.Sprintf("concurrent.g=%d", g)
			res.Count(class)
			res.Case(map[string]interface{}{"class": class, "limit": cc.limit, "rate_ms": float64(cc.rate) / 1e6, "calls": len(calls), "admitted": nAdm},
				fmt.Sprint("conc", g, cc.limit, cc.rate, nAdm, len(calls)), nAdm > 0 && nAdm < len(calls))
			for _, f := range rlOracle(calls, cc.limit, cc.rate, false) {
				key := "concurrent-" + f.Key
				if !failed[key] {
					failed[key] = true
					type iv struct {
						T0us, T1us int64
						Ok         bool
					}
					var ivs []iv
					for _, c := range calls {
						ivs = append(ivs, iv{int64(c.T0 / time.Microsecond), int64(c.T1 / time.Microsecond), c.Ok})
					}
					sort.Slice(ivs, func(a, b int) bool { return ivs[a].T0us < ivs[b].T0us })
					if len(ivs) > 400 {
						ivs = ivs[:400]
					}
					res.Fail(fmt.Sprintf("%d goroutines: %s", g, f.What), key, map[string]interface{}{"goroutines": g, "limit": cc.limit, "rate_us": int64(cc.rate / time.Microsecond), "calls_us": ivs})
				}
			}
		}
	}
	seen := map[string]bool{}
	for _, h := range rlScenarios() {
		if !seen[h.Class] {
			seen[h.Class] = true
			res.Required = append(res.Required, h.Class)
		}
	}
	for _, g := range []int{1, 2, 4, 8, 16, 32, 64} {
		res.Required = append(res.Required, fmt.Sprintf("concurrent.g=%d", g))
	}
	res.Required = append(res.Required, "calls.admitted", "calls.rejected")
	res.Extra["tick_ms"] = float64(baseTick) / 1e6
	res.Rule = "hand-built scenarios (bursts over the limit, arrivals paced exactly inside / just outside the window, tight loop, limit 0 and negative, rate 0 and negative) and seeded random burst sequences over the grid limit {0,1,2,3,5,8,20,-1} x window {1/2,3/2,5/2,9/2,-1/2 ticks, 0}, on a time grid (tick adaptive; histories whose calls leave their half cell are discarded and repeated); thorough adds every sequence of up to 6 bursts over a 4-symbol alphabet; plus concurrent runs with 1..64 goroutines judged by interval arithmetic (oracle only); a history is non-trivial when it contains admitted and rejected calls, distinct by configuration and answers"
	return res, nil
}
