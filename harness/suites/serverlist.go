//go:build test && verif

package suites

// C17, server side (suite "serverlist"): sequences of POST /api/v1/authorized-servers
// (new, duplicate with changed ports, ban, un-ban attempt, re-ban with another
// address, bad signature, tampered after signing, 0/1/255/256-byte and non-ASCII
// locations) and POST /api/v1/equipment-migrate (valid, bad outer signature,
// new server signed by the wrong GCA, no new servers) against a real server;
// GET /api/v1/authorized-servers after every request, and the TCP sync reply
// of an authorized device after every migration post.  Model: ServerList.v.

import (
	"encoding/binary"
	"fmt"
	"os"
	"strings"
	"sync"
	"time"

	"github.com/glowlabs-org/gca-backend/glow"
	"github.com/glowlabs-org/gca-backend/server"
	"verifharness/core"
)

func init() { core.Register("serverlist", serverlistSuite) }

func asEqual(a, b server.AuthorizedServer) bool {
	return asCanon([]server.AuthorizedServer{a}) == asCanon([]server.AuthorizedServer{b})
}

func serverlistSuite(seed uint64, tier, outDir string) (*core.Result, error) {
	res := core.NewResult("serverlist", seed, tier)
	rng := core.NewRNG(seed)
	nh, nops := 5, 28
	if tier == "thorough" {
		nh, nops = 60, 60
	}
	defer glow.SetCurrentTimeslot(0)
	var items []string
	for hi := 0; hi < nh; hi++ {
		rs, err := startRealServer(fmt.Sprintf("verif-serverlist-%d", hi))
		if err != nil {
			return nil, err
		}
		tab := &sigTab{}
		dev := &swDevice{key: newKey(), id: uint32(rng.Range(1, 1<<20))}
		if err := rs.authorize(dev); err != nil {
			rs.s.Close()
			return nil, err
		}
		var keys []keyPair // servers the GCA has created so far
		var list []server.AuthorizedServer
		var lastMig *server.EquipmentMigration
		var ops []string
		var descs []interface{}
		locs := []string{"", "!", "127.0.0.1", strings.Repeat("a", 255), strings.Repeat("b", 256), "zürich-δ", strings.Repeat("c", rng.Range(2, 254))}
		forced := []string{"new", "new", "dup-ports", "ban", "unban", "reban-moved", "badsig", "tampered", "new-banned", "mig-valid", "mig-badouter", "mig-badinner", "mig-empty", "ban-unknown-then-new"}
		for oi := 0; oi < nops; oi++ {
			kind := []string{"new", "dup-ports", "ban", "unban", "reban-moved", "badsig", "tampered", "new-banned", "mig-valid", "mig-badouter", "mig-badinner", "mig-empty"}[rng.Intn(12)]
			if oi < len(forced) {
				kind = forced[oi]
			}
			if len(keys) == 0 && (kind == "dup-ports" || kind == "ban" || kind == "unban" || kind == "reban-moved") {
				kind = "new"
			}
			pick := func() keyPair { return keys[rng.Intn(len(keys))] }
			loc := locs[rng.Intn(len(locs))]
			port := func() uint16 { return uint16(rng.Range(1, 65535)) }
			var as server.AuthorizedServer
			var mig *server.EquipmentMigration
			validSig := true
			switch kind {
			case "new", "ban-unknown-then-new":
				k := newKey()
				keys = append(keys, k)
				as = mkAS(tab, rs.gca, k.pub, kind == "ban-unknown-then-new", loc, 9, port(), port())
			case "new-banned":
				k := newKey()
				keys = append(keys, k)
				as = mkAS(tab, rs.gca, k.pub, true, loc, 9, port(), port())
			case "dup-ports":
				as = mkAS(tab, rs.gca, pick().pub, false, loc, 9, port(), port())
			case "ban", "reban-moved":
				as = mkAS(tab, rs.gca, pick().pub, true, loc, 9, port(), port())
			case "unban":
				// a key that is banned in the list, if any
				k := pick().pub
				for _, e := range list {
					if e.Banned {
						k = e.PublicKey
					}
				}
				as = mkAS(tab, rs.gca, k, false, loc, 9, port(), port())
			case "badsig":
				as = mkAS(&sigTab{}, newKey(), newKey().pub, rng.Bool(), loc, 9, port(), port())
				validSig = false
			case "tampered":
				as = mkAS(tab, rs.gca, pick2(keys, rng).pub, false, "127.0.0.1", 9, port(), port())
				switch rng.Intn(4) {
				case 0:
					as.Banned = !as.Banned
				case 1:
					as.Location += "x"
				case 2:
					as.TcpPort ^= 1
				case 3:
					as.PublicKey[rng.Intn(32)] ^= 1
				}
				validSig = false
			default: // migrations
				ng := newKey()
				var ns []server.AuthorizedServer
				k := rng.Range(1, 3)
				if kind == "mig-empty" {
					k = 0
				}
				for j := 0; j < k; j++ {
					signer := ng
					if kind == "mig-badinner" && j == k-1 {
						signer = rs.gca
					}
					ns = append(ns, mkAS(tab, signer, newKey().pub, false, "127.0.0.1", 9, port(), port()))
				}
				outer := rs.gca
				if kind == "mig-badouter" {
					outer = newKey()
				}
				eq := dev.key.pub
				if rng.Chance(25) {
					eq = newKey().pub // an order for a device this server does not know: stored all the same
				}
				m := mkMig(tab, outer, eq, ng.pub, uint32(rng.Range(1, 1<<30)), ns)
				mig = &m
				validSig = kind == "mig-valid" || kind == "mig-empty"
			}
			before := list
			var code int
			if mig != nil {
				code, err = rs.postJSON("equipment-migrate", *mig)
			} else {
				code, err = rs.postJSON("authorized-servers", as)
			}
			if err != nil {
				rs.s.Close()
				return nil, fmt.Errorf("post: %v", err)
			}
			after, err := rs.getServers()
			if err != nil {
				rs.s.Close()
				return nil, err
			}
			accepted := code == 200
			res.Count("op." + kind)
			d := map[string]interface{}{"op": kind, "status": code, "list_before": len(before), "list_after": len(after)}
			descs = append(descs, d)
			replay := map[string]interface{}{"history": hi, "ops": descs}
			// ---- oracle
			if accepted != validSig {
				res.Fail(fmt.Sprintf("request %q: accepted=%v although its GCA signature valid=%v", kind, accepted, validSig), "signature-rule:"+kind, replay)
			}
			if len(after) < len(before) {
				res.Fail("the list of authorized servers shrank", "list-shrank", replay)
			}
			for i, x := range before {
				if i >= len(after) {
					break
				}
				y := after[i]
				if asEqual(x, y) {
					continue
				}
				if x.Banned {
					res.Fail("a banned entry changed", "banned-changed", replay)
				} else if mig != nil || !validSig || !y.Banned || y.PublicKey != x.PublicKey || !asEqual(y, as) {
					res.Fail("an existing entry was altered other than by a signed ban record for its key", "entry-altered", replay)
				}
			}
			for i := len(before); i < len(after); i++ {
				if mig != nil || !validSig || !asEqual(after[i], as) || i != len(before) {
					res.Fail("a server entered the list without a valid GCA signature over exactly its fields", "entered-unsigned", replay)
				}
			}
			// an accepted, GCA-signed ban is in the list afterwards -- also for a key the server had not listed yet
			// (if it were dropped, the key's old authorization arriving later would make a banned server usable)
			if mig == nil && accepted && validSig && as.Banned {
				held := false
				for _, y := range after {
					if y.PublicKey == as.PublicKey && y.Banned {
						held = true
					}
				}
				if !held {
					res.Fail(fmt.Sprintf("request %q: a GCA-signed ban record was answered with success but the key is not in the list as banned afterwards", kind), "ban-dropped", replay)
				}
			}
			if mig != nil {
				if accepted && mig.Equipment == dev.key.pub {
					lastMig = mig
				}
				w, ferr := fetchSync(rs.tcp, dev.id)
				var want glow.PublicKey
				if lastMig != nil {
					want = lastMig.NewGCA
				}
				if ferr != nil || len(w) < 578 || string(w[542:574]) != string(want[:]) {
					res.Fail("the sync reply does not carry the last accepted migration order (or carries a refused one)", "migration-served", replay)
				}
				if lastMig != nil && len(w) >= 578 && binary.LittleEndian.Uint32(w[574:578]) != lastMig.NewShortID {
					res.Fail("the sync reply carries another short id than the accepted order", "migration-served", replay)
				}
			}
			list = after
			if mig != nil {
				ops = append(ops, core.Tuple("SMigrate "+migG(*mig), core.Bool(accepted), asListG(after)))
			} else {
				ops = append(ops, core.Tuple("SPost "+asG(as), core.Bool(accepted), asListG(after)))
			}
		}
		res.Case(map[string]interface{}{"kind": "post-sequence", "history": hi, "ops": descs}, strings.Join(ops, "|"), true)
		res.Evaluations += len(ops) - 1 // every request of the sequence is compared with the model
		items = append(items, core.Tuple(core.Hex(rs.gca.pub[:]), tab.gallina(), core.List(ops)))
		rs.s.Close()
		os.RemoveAll(rs.dir)
	}
	// simultaneous announcements of one new key (authorizations with different ports, and an authorization
	// next to a ban): the key gets exactly one entry, and once banned it stays banned
	{
		rs, err := startRealServer("verif-serverlist-conc")
		if err != nil {
			return nil, err
		}
		t2 := &sigTab{}
		for round := 0; round < 500; round++ {
			k := newKey()
			var wg sync.WaitGroup
			start := make(chan struct{})
			withBan := round%2 == 1
			for g := 0; g < 8; g++ {
				as := mkAS(t2, rs.gca, k.pub, withBan && g == 3, "127.0.0.1", 9, uint16(2000+g), uint16(3000+g))
				wg.Add(1)
				go func() {
					defer wg.Done()
					<-start
					rs.postJSON("authorized-servers", as)
				}()
			}
			time.Sleep(time.Millisecond)
			close(start)
			wg.Wait()
			res.Count("op.simultaneous-new")
			list, err := rs.getServers()
			if err != nil {
				break
			}
			n, banned, open := 0, 0, 0
			for _, e := range list {
				if e.PublicKey == k.pub {
					n++
					if e.Banned {
						banned++
					} else {
						open++
					}
				}
			}
			if n > 1 {
				res.Fail(fmt.Sprintf("after 8 simultaneous announcements of one new server key the list holds %d entries for it (%d banned, %d not banned)", n, banned, open), "list-duplicate-key", map[string]interface{}{"entries": n, "banned": banned, "not_banned": open, "with_ban": withBan})
				break
			}
		}
		rs.s.Close()
		os.RemoveAll(rs.dir)
	}
	for off := 0; off < len(items); off += 5 {
		end := off + 5
		if end > len(items) {
			end = len(items)
		}
		if err := res.CasesFile(outDir, fmt.Sprintf("cases_serverlist_%d", off/5), syncImports, "slcase", items[off:end], "sl_mismatches"); err != nil {
			return nil, err
		}
	}
	res.Required = append(res.Required, "op.new", "op.dup-ports", "op.ban", "op.unban", "op.reban-moved", "op.badsig", "op.tampered", "op.new-banned",
		"op.mig-valid", "op.mig-badouter", "op.mig-badinner", "op.mig-empty", "op.simultaneous-new")
	res.Rule = "POST sequences against a real server: new / duplicate with changed ports / ban / un-ban attempt / ban record with another address for a banned key / foreign signature / field changed after signing / banned on arrival; migration orders valid, bad outer, bad inner, empty; locations of 0,1,255,256 bytes and non-ASCII; GET after each; non-trivial = every sequence (each contains accepted and refused requests)"
	return res, nil
}

func pick2(keys []keyPair, rng *core.RNG) keyPair {
	if len(keys) == 0 {
		return newKey()
	}
	return keys[rng.Intn(len(keys))]
}
