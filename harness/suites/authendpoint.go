//go:build test

package suites

// JSON transport of an authorization through the real endpoint: POST /api/v1/authorize-equipment on a
// running server, then GET /api/v1/equipment.  The values include the longest JSON documents the type
// has (every numeric field near its maximum, 17-digit coordinates, keys and signatures made mostly of
// three-digit bytes), so a limit on the request that is derived from typical values shows up.

import (
	"bytes"
	"encoding/json"
	"fmt"
	"math"
	"strings"

	"github.com/glowlabs-org/gca-backend/glow"
	"github.com/glowlabs-org/gca-backend/server"
	"verifharness/srv"
)

func (c *codecRun) authEndpoint() error {
	r := c.rng.Fork()
	w, err := srv.NewWorld(r, "json-endpoint", 100)
	if err != nil {
		return err
	}
	defer w.Close()
	w.UseHTTP = true
	gca := srv.DetKey(r)
	reg := server.GCARegistration{GCAKey: gca.Pub}
	if ob := w.Register(gca.Pub, w.Sign(reg.SigningBytes(), w.Temp), "setup"); !strings.Contains(ob, "Accepted") {
		return fmt.Errorf("json endpoint: setup registration refused")
	}
	c.res.Required = append(c.res.Required, "auth.json-endpoint")
	sent := map[uint32]glow.EquipmentAuthorization{}
	longest := 0
	for i := 0; i < 12; i++ {
		var best glow.EquipmentAuthorization
		var bestJS []byte
		for k := 0; k < 24; k++ {
			ea := ccGenAuth(r, true)
			ea.PublicKey = srv.DetKey(r).Pub
			ea.ShortID = 1<<32 - 1 - uint32(i)
			if i%3 != 2 {
				ea.Capacity, ea.Debt, ea.ProtocolFee = 1<<64-1-uint64(r.Intn(1000)), 1<<64-1-uint64(r.Intn(1000)), 1<<63+uint64(r.Intn(1000))
				ea.Expiration, ea.Initialization = 1<<32-1-uint32(r.Intn(1000)), 1<<31+uint32(r.Intn(1000))
				ea.Latitude = -math.Float64frombits(0x4066800000000000 - 1 - uint64(r.Intn(1000))) // just inside -180
				ea.Longitude = -1.2345678901234567e-100 * float64(1+r.Intn(7))
			}
			ea.Signature = glow.Sign(ea.SigningBytes(), gca.Priv)
			js, _ := json.Marshal(ea)
			if len(js) > len(bestJS) {
				best, bestJS = ea, js
			}
		}
		if len(bestJS) > longest {
			longest = len(bestJS)
		}
		c.res.Count("auth.json-endpoint")
		c.res.Evaluations++
		rr := w.Raw("POST", "/api/v1/authorize-equipment", bestJS)
		if rr.Panicked || rr.Status != 200 {
			c.res.Fail(fmt.Sprintf("a correctly signed authorization (JSON document of %d bytes, large field values) is refused by POST /api/v1/authorize-equipment with status %d: JSON transport does not preserve it", len(bestJS), rr.Status),
				"auth-json-endpoint-refused", map[string]interface{}{"json": string(bestJS), "status": rr.Status, "body": trunc(rr.Body)})
			continue
		}
		sent[best.ShortID] = best
	}
	c.res.Extra["auth_json_endpoint_longest_document"] = longest
	rr := w.Raw("GET", "/api/v1/equipment", nil)
	var er server.EquipmentResponse
	if rr.Status != 200 || json.Unmarshal(rr.Body, &er) != nil {
		c.res.Fail("GET /api/v1/equipment does not answer with a decodable document", "auth-json-endpoint-list", map[string]interface{}{"status": rr.Status})
		return nil
	}
	for id, ea := range sent {
		got, ok := er.EquipmentDetails[id]
		if !ok || !bytes.Equal(got.Serialize(), ea.Serialize()) {
			c.res.Fail("an authorization submitted as JSON is not the one the server lists afterwards (JSON transport does not preserve it exactly)", "auth-json-endpoint-differs",
				map[string]interface{}{"sent": ccGAuth(ea), "listed": ok})
		}
	}
	return nil
}
