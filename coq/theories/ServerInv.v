(* The server invariant: what holds in every state reachable from a fresh directory. *)
From Coq Require Import ZArith List Bool.
From GCA Require Import Wrap Bytes Codec Amap Timeslot Server.
Import ListNotations.
Open Scope Z_scope.
Notation length := List.length.

(* clocks the theorems quantify over: every timeslot below 2^32 - 8192 (year ~40,000) *)
Definition clock_ok (now : Z) : Prop := 0 <= now < 2^32 - 8192.

Definition win_ok (id o : Z) (w : window) : Prop :=
  forall i r, zget i w = Some r ->
    0 <= i < window_len /\ r_p r <> 0 /\ r_id r = id /\ r_ts r = o + i.

Definition rates_ok (w : rates) : Prop := forall i v, zget i w = Some v -> 0 <= i < window_len.

Record MemInv (m0 : mem) : Prop := {
  i_off_lo : 0 <= offset m0;
  i_off_hi : offset m0 <= 2^32 - 8192;
  i_off_hist : offset m0 = week_len * Z.of_nat (length (history m0));
  i_hist_tso : forall k s, nth_error (history m0) k = Some s -> st_tso s = week_len * Z.of_nat k;
  i_dom_rep : forall id, zmem id (reports m0) = zmem id (equipment m0);
  i_dom_imp : forall id, zmem id (impact m0) = zmem id (equipment m0);
  i_bans : forall id, zin id (bans m0) = true -> zget id (equipment m0) = None;
  i_eq_id : forall id a, zget id (equipment m0) = Some a -> a_id a = id;
  i_win : forall id w, zget id (reports m0) = Some w -> win_ok id (offset m0) w;
  i_idx : forall k id, bget k (index m0) = Some id ->
            exists a, zget id (equipment m0) = Some a /\ a_key a = k;
  i_nogca : gca_avail m0 = false -> equipment m0 = [] /\ bans m0 = [] /\ reports m0 = [] /\
                                   impact m0 = [] /\ index m0 = []
}.

(* operations whose parameters are in the stated domain *)
Definition f64_finite_bits (x : Z) : Prop := f64_is_nan x = false.
