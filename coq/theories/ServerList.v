(* Server side of the server-list and migration rules:
     server/api_authorized_servers.go   AuthorizedServersHandlerPOST  -> [post_server]
     server/api_equipment_migrate.go    managedValidateMigration      -> [validate_migration]
                                        EquipmentMigrateHandler       -> [post_migration]
   The model starts from the decoded JSON value.  Definitions only (proofs: ServerList_lemmas.v). *)
From Coq Require Import ZArith List Bool.
From GCA Require Import Bytes CodecSync.
Import ListNotations.
Open Scope Z_scope.

Section WithVerify.
  Variable verify : bytes -> bytes -> bytes -> bool.      (* key, message, signature *)

  (* the loop over s.gcaServers.servers: first entry with the same key decides *)
  Fixpoint upsert (l : list aserver) (s : aserver) : list aserver :=
    match l with
    | [] => [s]                                              (* new server: append *)
    | x :: r =>
        if bytes_eqb (as_key x) (as_key s) then
          if as_banned x then x :: r                         (* banned: nothing changes *)
          else if negb (as_banned s) then x :: r             (* not a ban: update ignored *)
          else s :: r                                        (* ban: the entry is replaced *)
        else x :: upsert r s
    end.

  (* (new list, request accepted = signature valid) *)
  Definition post_server (gk : bytes) (l : list aserver) (s : aserver) : list aserver * bool :=
    if verify gk (as_signing_bytes s) (as_sig s) then (upsert l s, true) else (l, false).

  Definition post_all (gk : bytes) (l : list aserver) (posts : list aserver) : list aserver :=
    fold_left (fun acc s => fst (post_server gk acc s)) posts l.

  Definition validate_migration (gk : bytes) (m : migration) : bool :=
    verify gk (mg_signing_bytes m) (mg_sig m) &&
    forallb (fun s => verify (mg_newgca m) (as_signing_bytes s) (as_sig s)) (mg_servers m).

  (* equipmentMigrations[request.Equipment] = request *)
  Definition migs := list (bytes * migration).
  Fixpoint migs_set (k : bytes) (m : migration) (l : migs) : migs :=
    match l with
    | [] => [(k, m)]
    | (k', m') :: r => if bytes_eqb k k' then (k', m) :: r else (k', m') :: migs_set k m r
    end.
  Definition post_migration (gk : bytes) (l : migs) (m : migration) : migs :=
    if validate_migration gk m then migs_set (mg_equipment m) m l else l.
  Definition post_migrations (gk : bytes) (l : migs) (ms : list migration) : migs :=
    fold_left (post_migration gk) ms l.
End WithVerify.
