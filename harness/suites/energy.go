//go:build test && verif

package suites

// C16: client/reports.go staticReadEnergyFile and client/client.go
// readCTSettingsFile against ClientEnergy.v.
//
// Every generated file is written to disk and read by the real functions
// (verif wrappers).  The model receives what Go's own layers deliver: the rows
// encoding/csv returns before its first error, and for every field the
// verdicts of strconv.ParseInt / ParseFloat; for the calibration file the
// tokens of bufio.Scanner with their ParseFloat verdicts.
//
// Oracle (implementation alone, the property text): no panic; a delivered row
// with at least two fields and an integer timestamp t, G <= t < G+2^32, yields
// exactly one record for slot (t-G)/300, rows before genesis or without a
// usable timestamp none; value 2 for |f| < 24, 3 for an unparseable reading,
// otherwise trunc(mult*f/div) in two's complement when that is finite and fits
// 64 signed bits.

import (
	"bufio"
	"bytes"
	"encoding/csv"
	"encoding/hex"
	"encoding/json"
	"fmt"
	"io"
	"math"
	"os"
	"path/filepath"
	"regexp"
	"strconv"
	"strings"

	"github.com/glowlabs-org/gca-backend/client"
	"github.com/glowlabs-org/gca-backend/glow"
	"verifharness/core"
)

func init() { core.Register("energy", energySuite) }

type energyField struct {
	IntOK   bool
	Int     int64
	Header  bool
	FloatOK bool
	Float   float64
}

// csvRows: the rows the loop of staticReadEnergyFile sees (it breaks at the first error, EOF included).
func csvRows(data []byte) (rows [][]string, stop string) {
	reader := csv.NewReader(strings.NewReader(string(data)))
	for {
		rec, err := reader.Read()
		if err != nil {
			if err == io.EOF {
				return rows, "eof"
			}
			return rows, "csv-error"
		}
		rows = append(rows, append([]string{}, rec...))
	}
}

func fieldVerdicts(s string) energyField {
	var f energyField
	v, err := strconv.ParseInt(s, 10, 64)
	f.IntOK, f.Int = err == nil, v
	f.Header = s == "timestamp"
	x, err := strconv.ParseFloat(s, 64)
	f.FloatOK, f.Float = err == nil, x
	return f
}

func optZ(ok bool, s string) string {
	if !ok {
		return "None"
	}
	return "(Some " + s + ")"
}

type energyReplay struct {
	ContentHex string `json:"content_hex"`
	Content    string `json:"content_text"`
	MultBits   string `json:"mult_bits_hex"`
	DivBits    string `json:"div_bits_hex"`
	Mult       string `json:"mult"`
	Div        string `json:"div"`
	Genesis    int64  `json:"genesis"` // GenesisTime of the run that produced the file (test builds: process start)
}

var energyIntTok = regexp.MustCompile(`[0-9]+`)

// rebase moves the timestamps of a stored file to this process's genesis.
func (r energyReplay) rebase(content []byte, G int64) []byte {
	if r.Genesis == 0 || r.Genesis == G {
		return content
	}
	return energyIntTok.ReplaceAllFunc(content, func(tok []byte) []byte {
		v, err := strconv.ParseInt(string(tok), 10, 64)
		if err != nil || v-r.Genesis > 1<<42 || r.Genesis-v > 1<<20 {
			return tok
		}
		return []byte(strconv.FormatInt(v-r.Genesis+G, 10))
	})
}

func energySuite(seed uint64, tier, outDir string) (*core.Result, error) {
	res := core.NewResult("energy", seed, tier)
	rng := core.NewRNG(seed ^ 0x656e6572)
	dir, err := os.MkdirTemp("", "vh-energy-")
	if err != nil {
		return nil, err
	}
	defer os.RemoveAll(dir)
	c, err := client.VerifNewBareClient(dir, false)
	if err != nil {
		return nil, err
	}
	G := glow.GenesisTime
	epath := c.VerifEnergyFilePath()
	if !strings.HasPrefix(epath, dir) {
		return nil, fmt.Errorf("energy suite needs the test build (energy file inside the client directory), got %s", epath)
	}

	var items []string
	shard, size := 0, 0
	flush := func() error {
		if len(items) == 0 {
			return nil
		}
		name := fmt.Sprintf("cases_energy_%d", shard)
		shard++
		err := res.CasesFile(outDir, name, "From Coq Require Import ZArith List.\nFrom GCA Require Import RunLib ClientEnergyRun.",
			"energy_case", items, fmt.Sprintf("energy_mismatches %d", G))
		items, size = nil, 0
		return err
	}

	// ---- one energy file against the real reader
	runFile := func(class string, content []byte) error {
		res.Count(class)
		if err := os.WriteFile(epath, content, 0644); err != nil {
			return err
		}
		mult, div := energyCT(c)
		var recs []client.EnergyRecord
		var rerr error
		panicked := ""
		func() {
			defer func() {
				if r := recover(); r != nil {
					panicked = fmt.Sprint(r)
				}
			}()
			recs, rerr = c.VerifReadEnergyFile()
		}()
		rp := energyReplay{ContentHex: hex.EncodeToString(content), Content: string(content),
			MultBits: fmt.Sprintf("%016x", math.Float64bits(mult)), DivBits: fmt.Sprintf("%016x", math.Float64bits(div)),
			Mult: fmt.Sprint(mult), Div: fmt.Sprint(div), Genesis: G}
		rows, stop := csvRows(content)
		res.Count("csv-stop." + stop)
		// ---- oracle
		emitted, skipped, sentinel := 0, 0, 0
		if panicked != "" {
			res.Fail("reading the energy file panics: "+panicked, "energy-panic", rp)
		} else if rerr != nil {
			res.Fail("reading an existing energy file returns an error: "+rerr.Error(), "energy-error", rp)
		} else {
			k := 0
			ok := true
			for _, row := range rows {
				if len(row) < 2 {
					skipped++
					continue
				}
				f0, f1 := fieldVerdicts(row[0]), fieldVerdicts(row[1])
				if !f0.IntOK || f0.Int < G {
					skipped++
					continue
				}
				if k >= len(recs) {
					ok = false
					res.Fail("a well-formed row at or after genesis yields no record", "row-missing", rp)
					break
				}
				r := recs[k]
				k++
				emitted++
				if f0.Int-G < 1<<32 && int64(r.Timeslot) != (f0.Int-G)/300 {
					ok = false
					res.Fail(fmt.Sprintf("timestamp %d (genesis+%d) reported for slot %d", f0.Int, f0.Int-G, r.Timeslot), "wrong-slot", rp)
					break
				}
				switch {
				case !f1.FloatOK:
					sentinel++
					if r.Energy != 3 {
						ok = false
						res.Fail(fmt.Sprintf("unparseable reading %q reported as %d", row[1], r.Energy), "sentinel-3", rp)
					}
				case math.Abs(f1.Float) < 24:
					sentinel++
					if r.Energy != 2 {
						ok = false
						res.Fail(fmt.Sprintf("reading %q below 24 reported as %d", row[1], r.Energy), "sentinel-2", rp)
					}
				default:
					sc := mult * f1.Float / div
					if !math.IsNaN(sc) && !math.IsInf(sc, 0) && math.Abs(sc) < 9223372036854775808.0 {
						want := uint64(int64(math.Trunc(sc)))
						if r.Energy != want {
							ok = false
							res.Fail(fmt.Sprintf("reading %q scaled by %v/%v reported as %d, expected %d", row[1], mult, div, r.Energy, want), "value", rp)
						}
						res.Count("value.scaled")
						if sc < 0 {
							res.Count("value.negative")
						}
						if sc != math.Trunc(sc) {
							res.Count("value.fractional")
						}
					} else {
						res.Count("value.unspecified")
					}
				}
				if !ok {
					break
				}
			}
			if ok && k != len(recs) {
				res.Fail(fmt.Sprintf("%d records for %d usable rows", len(recs), k), "row-extra", rp)
			}
		}
		// ---- model case
		var rowsS []string
		for _, row := range rows {
			var fs []string
			for _, s := range row {
				f := fieldVerdicts(s)
				fs = append(fs, core.Tuple(optZ(f.IntOK, core.Z(f.Int)), core.Bool(f.Header), optZ(f.FloatOK, core.ZU(math.Float64bits(f.Float)))))
			}
			rowsS = append(rowsS, core.List(fs))
		}
		obs := "None"
		if panicked == "" {
			var rs []string
			for _, r := range recs {
				rs = append(rs, core.Pair(core.ZU(uint64(r.Timeslot)), core.ZU(r.Energy)))
			}
			obs = core.Some(core.List(rs))
		}
		it := core.Tuple(core.ZU(math.Float64bits(mult)), core.ZU(math.Float64bits(div)), core.List(rowsS), obs)
		desc := map[string]interface{}{"class": class, "content": string(content), "mult": fmt.Sprint(mult), "div": fmt.Sprint(div), "records": len(recs), "panic": panicked, "csv_stop": stop}
		res.Case(desc, rp.ContentHex+rp.MultBits+rp.DivBits, emitted > 0 && (skipped > 0 || sentinel > 0))
		items = append(items, it)
		size += len(it)
		if len(items) >= 500 || size > 600000 {
			return flush()
		}
		return nil
	}

	// ---- generators ------------------------------------------------------
	tsAt := func(off int64) string { return strconv.FormatInt(G+off, 10) }
	goodTS := func() string { return tsAt(int64(rng.Intn(4000))*300 + int64(rng.Intn(300))) }
	tsPool := func() string {
		switch k := rng.Intn(100); {
		case k < 55:
			return goodTS()
		case k < 63:
			return tsAt(-int64(rng.Range(1, 100000))) // before genesis
		case k < 66:
			return pickStr(rng, []string{"0", "-1", "-9223372036854775808", "1"})
		case k < 74:
			return tsAt(core.PickI64(rng, []int64{1<<32 - 1, 1<<32 - 300, 1 << 32, 1<<32 + 299, 1<<32 + 300, 1 << 33, 1 << 40, 1<<32 - 301}))
		case k < 78:
			return pickStr(rng, []string{"9223372036854775807", "9223372036854775808", "99999999999999999999", "-9223372036854775809"})
		case k < 84:
			return pickStr(rng, []string{"", " ", "abc", "timestamp", "Timestamp", "12:30", "1.7e9", "0x10", "1_000", "１２３"})
		case k < 88:
			return " " + goodTS()
		case k < 92:
			return "+" + goodTS()
		case k < 96:
			return `"` + goodTS() + `"`
		default:
			return goodTS() + ".0"
		}
	}
	valPool := func() string {
		switch k := rng.Intn(100); {
		case k < 25:
			return strconv.Itoa(rng.Intn(200000))
		case k < 33:
			return strconv.FormatFloat(float64(rng.Intn(1000000))/float64(1+rng.Intn(977)), 'f', -1, 64)
		case k < 43:
			return pickStr(rng, []string{"24", "-24", "23.999999999999996", "-23.999999999999996", "24.000000000000004", "23.9999999999999999999", "0", "-0", "1", "23", "-23", "25", "-25", "24.5", "1e1", "2.4e1", "0.24e2", "5e-324", "-5e-324"})
		case k < 53:
			return "-" + strconv.FormatFloat(float64(rng.Intn(5000000))/float64(1+rng.Intn(13)), 'f', -1, 64)
		case k < 62:
			return pickStr(rng, []string{"1e3", "2.5E+2", "1E6", "-3.25e4", "7e0", "1e-3", "12345e-2", "1.5e15", "-1.5e15", "4.7e18"})
		case k < 72:
			return pickStr(rng, []string{"1e300", "-1e300", "1e308", "1.7976931348623157e308", "1e309", "-1e309", "9223372036854775807", "9223372036854775808", "-9223372036854775808", "-9223372036854775809",
				"9.3e18", "1.8e19", "18446744073709551615", "2e19", "-2e19", "9223372036854774784", "4294967296", "4294967301", "2147483648", "-2147483649"})
		case k < 80:
			return pickStr(rng, []string{"NaN", "nan", "Inf", "-Inf", "+Inf", "inf", "infinity", "-Infinity", "NAN", "iNf"})
		case k < 90:
			return pickStr(rng, []string{"", " ", " 5", "5 ", "abc", "12,5", "1.2.3", "--5", "0x1p10", "0x1.8p4", "1_000", "0b101", "12kWh", "error", "null", "１２", "1e", ".", "+", "+.5e1"})
		default:
			return `"` + strconv.Itoa(rng.Intn(90000)) + `"`
		}
	}
	headers := []string{"timestamp,energy (mWh)", "timestamp,energy", "timestamp", "Timestamp,Energy", "time,energy", "timestamp,energy,extra", "\"timestamp\",\"energy (mWh)\"", "timestamp;energy", " timestamp,energy"}
	genFile := func() []byte {
		var lines []string
		if rng.Chance(70) {
			lines = append(lines, headers[rng.Intn(len(headers))])
		}
		n := rng.Intn(10)
		for i := 0; i < n; i++ {
			switch k := rng.Intn(100); {
			case k < 70:
				lines = append(lines, tsPool()+","+valPool())
			case k < 78:
				lines = append(lines, tsPool()) // one field
			case k < 85:
				lines = append(lines, tsPool()+","+valPool()+","+valPool())
			case k < 88:
				lines = append(lines, "")
			case k < 91:
				lines = append(lines, tsPool()+`,"`+valPool()+"\n"+`x"`) // quoted field with a line break
			case k < 94:
				lines = append(lines, tsPool()+`,5"6`) // bare quote: csv error
			case k < 97:
				lines = append(lines, tsPool()+",")
			default:
				lines = append(lines, ","+valPool())
			}
		}
		if rng.Chance(15) && len(lines) > 1 {
			i, j := rng.Intn(len(lines)), rng.Intn(len(lines))
			lines[i], lines[j] = lines[j], lines[i]
		}
		sep := "\n"
		if rng.Chance(12) {
			sep = "\r\n"
		}
		s := strings.Join(lines, sep)
		if rng.Chance(60) {
			s += sep
		}
		return []byte(s)
	}

	// deterministic shapes named by the property's quantifier
	fixed := []struct{ class, content string }{
		{"file.header-standard", "timestamp,energy (mWh)\n" + tsAt(0) + ",100\n" + tsAt(300) + ",250.5\n" + tsAt(899) + ",-4000\n"},
		{"file.header-missing", tsAt(0) + ",100\n" + tsAt(600) + ",7\n"},
		{"file.header-only", "timestamp,energy (mWh)"},
		{"file.empty", ""},
		{"file.header-variant", "Timestamp,Energy\n" + tsAt(300) + ",99\n"},
		{"file.single-column", "timestamp\n" + tsAt(300) + "\n" + tsAt(600) + "\n"}, // D11 shape
		{"file.single-column", tsAt(0) + "\n"},
		{"file.single-column", "abc\n" + tsAt(-5) + "\n" + "timestamp\n"},
		{"file.single-column-then-two", tsAt(0) + "\n" + tsAt(300) + ",5\n"},
		{"file.quoted", "\"timestamp\",\"energy (mWh)\"\n\"" + tsAt(300) + "\",\"1234\"\n" + tsAt(600) + ",\"12,34\"\n" + tsAt(900) + ",\"5\n6\"\n"},
		{"file.wrong-column-count", "timestamp,energy\n" + tsAt(300) + ",5000\n" + tsAt(600) + ",6000,1\n" + tsAt(900) + ",7000\n"},
		{"file.three-columns", "timestamp,energy,extra\n" + tsAt(300) + ",5000,1\n" + tsAt(600) + ",abc,2\n"},
		{"file.huge", tsAt(300) + ",1e300\n" + tsAt(600) + ",9223372036854775807\n" + tsAt(900) + ",1e309\n" + tsAt(1200) + ",1.8e19\n" + tsAt(1500) + ",4.7e18\n"},
		{"file.negative", tsAt(300) + ",-100\n" + tsAt(600) + ",-23.5\n" + tsAt(900) + ",-24\n" + tsAt(1200) + ",-9.3e18\n" + tsAt(1500) + ",-37.5\n"},
		{"file.scientific", tsAt(300) + ",1e3\n" + tsAt(600) + ",2.5E+2\n" + tsAt(900) + ",12345e-2\n" + tsAt(1200) + ",2.4e1\n"},
		{"file.nan-inf", tsAt(300) + ",NaN\n" + tsAt(600) + ",Inf\n" + tsAt(900) + ",-Inf\n" + tsAt(1200) + ",infinity\n"},
		{"file.before-genesis", tsAt(-1) + ",100\n" + tsAt(-300) + ",100\n0,100\n-5,100\n" + tsAt(0) + ",100\n"},
		{"file.far-future", tsAt(1<<32-1) + ",100\n" + tsAt(1<<32) + ",100\n" + tsAt(1<<40) + ",100\n9223372036854775807,100\n9223372036854775808,100\n"},
		{"file.thresholds", tsAt(0) + ",23.999999999999996\n" + tsAt(300) + ",24\n" + tsAt(600) + ",-24\n" + tsAt(900) + ",-23.999999999999996\n" + tsAt(1200) + ",0\n" + tsAt(1500) + ",24.000000000000004\n"},
		{"file.unparseable-reading", tsAt(0) + ",abc\n" + tsAt(300) + ",\n" + tsAt(600) + ", 5\n" + tsAt(900) + ",1_000\n"},
		{"file.bare-quote", tsAt(0) + ",100\n" + tsAt(300) + ",5\"6\n" + tsAt(600) + ",100\n"},
		{"file.crlf", "timestamp,energy (mWh)\r\n" + tsAt(0) + ",100\r\n" + tsAt(300) + ",200\r\n"},
		{"file.duplicate-slot", tsAt(0) + ",100\n" + tsAt(1) + ",200\n" + tsAt(299) + ",300\n"},
		// several DIFFERENT unparseable fields of a few hundred bytes each (every one is written to the client's
		// bounded event log): skipped rows / sentinel 3, never a crash
		{"file.long-garbage-fields", tsAt(0) + "," + strings.Repeat("7", 400) + "x\n" + tsAt(300) + "," + strings.Repeat("8", 430) + "y\n" + strings.Repeat("q", 380) + ",5\n" + tsAt(600) + "," + strings.Repeat("9", 460) + "z\n" + strings.Repeat("w", 300) + ",6\n" + tsAt(900) + ",100\n"},
	}

	// ---- corpus first (minimized past failures)
	if root := os.Getenv("VERIF_ROOT"); root != "" {
		files, _ := filepath.Glob(filepath.Join(root, "corpus", "C16", "*.json"))
		for _, f := range files {
			b, err := os.ReadFile(f)
			if err != nil {
				continue
			}
			var rj struct {
				Replay struct {
					Suite string       `json:"suite"`
					Case  energyReplay `json:"case"`
				} `json:"replay"`
			}
			if json.Unmarshal(b, &rj) != nil || rj.Replay.Suite != "energy" {
				continue
			}
			content, err := hex.DecodeString(rj.Replay.Case.ContentHex)
			if err != nil {
				continue
			}
			mb, _ := strconv.ParseUint(rj.Replay.Case.MultBits, 16, 64)
			db, _ := strconv.ParseUint(rj.Replay.Case.DivBits, 16, 64)
			c.VerifSetCT(math.Float64frombits(mb), math.Float64frombits(db))
			if err := runFile("corpus", rj.Replay.Case.rebase(content, G)); err != nil {
				return nil, err
			}
		}
	}

	// ---- calibration files (real readCTSettingsFile), each followed by energy files read with its values
	type ctGen struct{ class, content string }
	cts := []ctGen{
		{"ct.absent", "\x00absent"},
		{"ct.valid", "1000\n1000\n"},
		{"ct.valid", "-2000\n1000"},
		{"ct.valid", "4\n1\n"},
		{"ct.valid", "1.5\r\n3\r\n"},
		{"ct.valid", "0.001\n7\nextra line\n"},
		{"ct.negative-multiplier", "-1\n3\n"},
		{"ct.negative-multiplier", "-2.5e3\n-1e3\n"},
		{"ct.zero-divider", "1000\n0\n"},
		{"ct.zero-divider", "0\n0\n"},
		{"ct.zero-divider", "-5\n-0\n"},
		{"ct.extreme", "1e300\n1e-300\n"},
		{"ct.extreme", "NaN\nInf\n"},
		{"ct.extreme", "5e-324\n1\n"},
		{"ct.extreme", "1e18\n1e-2\n"},
		{"ct.malformed", ""},
		{"ct.malformed", "\n"},
		{"ct.malformed", "1000"},
		{"ct.malformed", "1000\n"},
		{"ct.malformed", "abc\n1000\n"},
		{"ct.malformed", "1000\nabc\n"},
		{"ct.malformed", "1000,1000\n"},
		{"ct.malformed", " 1000\n1000\n"},
		{"ct.malformed", "1000\n\n1000\n"},
		{"ct.malformed", "1e999\n1\n"},
		{"ct.malformed", strings.Repeat("1", 70000) + "\n1\n"},
		{"ct.unreadable", "\x00dir"},
	}
	nCT, filesPer := 10, 12
	if tier == "thorough" {
		nCT, filesPer = 200, 200
	}
	for i := 0; i < nCT; i++ { // generated calibration files
		pool := []string{"1000", "-2000", "1", "0", "-0", "4", "0.5", "1e3", "-7.25", "abc", "", " 3", "NaN", "Inf", "1e999", "3,4", "0x10", "1_0"}
		var ls []string
		for j, n := 0, rng.Intn(4); j < n; j++ {
			ls = append(ls, pool[rng.Intn(len(pool))])
		}
		s := strings.Join(ls, "\n")
		if rng.Chance(50) {
			s += "\n"
		}
		cts = append(cts, ctGen{"ct.generated", s})
	}
	var ctItems []string
	var ctDescs []interface{}
	ctPath := filepath.Join(dir, client.CTSettingsFile)
	defBits := func() (uint64, uint64) {
		cc, _ := client.VerifNewBareClient(dir, false)
		m, d := energyCT(cc)
		return math.Float64bits(m), math.Float64bits(d)
	}
	fixedDone := false
	for _, g := range cts {
		res.Count(g.class)
		os.RemoveAll(ctPath)
		kind := 2
		switch g.content {
		case "\x00absent":
			kind = 0
		case "\x00dir":
			kind = 1
			os.Mkdir(ctPath, 0755)
		default:
			if err := os.WriteFile(ctPath, []byte(g.content), 0644); err != nil {
				return nil, err
			}
		}
		// a fresh client object per calibration file, as at start-up
		c, _ = client.VerifNewBareClient(dir, false)
		c.VerifSetCT(math.Float64frombits(0x7ff8000000000abc), math.Float64frombits(0x7ff8000000000def)) // poison: a successful read must overwrite both
		var mult, div float64
		var cerr error
		panicked := ""
		func() {
			defer func() {
				if r := recover(); r != nil {
					panicked = fmt.Sprint(r)
				}
			}()
			mult, div, cerr = c.VerifReadCTSettings()
		}()
		// tokens of bufio.Scanner with their ParseFloat verdicts
		var lines []string
		var lineS []string
		if kind == 2 {
			sc := bufio.NewScanner(bytes.NewReader([]byte(g.content)))
			for sc.Scan() && len(lines) < 4 {
				lines = append(lines, sc.Text())
				x, err := strconv.ParseFloat(sc.Text(), 64)
				lineS = append(lineS, optZ(err == nil, core.ZU(math.Float64bits(x))))
			}
		}
		code := 0
		if cerr != nil {
			msg := cerr.Error()
			switch {
			case strings.HasPrefix(msg, "error opening ct settings file"):
				code = 1
			case strings.HasPrefix(msg, "ct settings file has no 1st line"):
				code = 2
			case strings.HasPrefix(msg, "could not parse 1st ct settings line"):
				code = 3
			case strings.HasPrefix(msg, "ct settings file has no 2nd line"):
				code = 4
			case strings.HasPrefix(msg, "could not parse 2nd ct settings line"):
				code = 5
			default:
				code = 99
			}
		}
		show := g.content
		if len(show) > 60 {
			show = show[:60] + "..."
		}
		rp := map[string]interface{}{"ct_content": show, "kind": kind}
		dm, dd := defBits()
		// oracle: read exactly as written
		if panicked != "" {
			res.Fail("reading the calibration file panics: "+panicked, "ct-panic", rp)
			code = 98
		} else {
			switch kind {
			case 0:
				if cerr != nil || math.Float64bits(mult) != dm || math.Float64bits(div) != dd {
					res.Fail("absent calibration file does not give the defaults", "ct-defaults", rp)
				}
			case 1:
				if cerr == nil {
					res.Fail("unreadable calibration file accepted", "ct-unreadable", rp)
				}
			default:
				good := len(lines) >= 2
				var w1, w2 float64
				if good {
					var e1, e2 error
					w1, e1 = strconv.ParseFloat(lines[0], 64)
					w2, e2 = strconv.ParseFloat(lines[1], 64)
					good = e1 == nil && e2 == nil
				}
				if good && (cerr != nil || math.Float64bits(mult) != math.Float64bits(w1) || math.Float64bits(div) != math.Float64bits(w2)) {
					res.Fail(fmt.Sprintf("calibration file not read as written: got %v/%v (%v)", mult, div, cerr), "ct-as-written", rp)
				}
				if !good && cerr == nil {
					res.Fail("malformed calibration file accepted", "ct-malformed-accepted", rp)
				}
			}
		}
		ctItems = append(ctItems, core.Tuple(core.ZU(dm), core.ZU(dd), core.Z(int64(kind)), core.List(lineS),
			core.Tuple(core.Z(int64(code)), core.ZU(math.Float64bits(mult)), core.ZU(math.Float64bits(div)))))
		ctDescs = append(ctDescs, map[string]interface{}{"class": g.class, "ct_content": show, "code": code, "mult": fmt.Sprint(mult), "div": fmt.Sprint(div)})
		res.Evaluations++
		if cerr != nil {
			// start-up fails with this file: NewClient returns the error, no energy file is ever read
			continue
		}
		// energy files under this calibration
		if !fixedDone || g.class == "ct.negative-multiplier" || g.class == "ct.zero-divider" {
			for _, f := range fixed {
				if err := runFile(f.class, []byte(f.content)); err != nil {
					return nil, err
				}
			}
			fixedDone = true
		}
		for i := 0; i < filesPer; i++ {
			if err := runFile("file.generated", genFile()); err != nil {
				return nil, err
			}
		}
	}
	// a few calibrations that no file produces are set directly (crash-freedom of the arithmetic)
	for _, md := range [][2]float64{{math.Inf(1), 1}, {1, math.Inf(-1)}, {math.NaN(), math.NaN()}, {math.MaxFloat64, math.SmallestNonzeroFloat64}, {-0.0, 1}, {1, 3}, {3, 7}, {1e15, 1}} {
		c.VerifSetCT(md[0], md[1])
		res.Count("ct.direct")
		for i := 0; i < filesPer/2+1; i++ {
			if err := runFile("file.generated", genFile()); err != nil {
				return nil, err
			}
		}
		if err := runFile("file.huge", []byte(fixed[12].content)); err != nil {
			return nil, err
		}
	}
	if err := flush(); err != nil {
		return nil, err
	}
	res.Cases = ctDescs
	if err := res.CasesFile(outDir, "cases_ct", "From Coq Require Import ZArith List.\nFrom GCA Require Import RunLib ClientEnergyRun.",
		"ct_case", ctItems, "ct_mismatches"); err != nil {
		return nil, err
	}
	res.Required = append(res.Required, "file.long-garbage-fields", "file.header-standard", "file.header-missing", "file.single-column", "file.quoted", "file.wrong-column-count",
		"file.huge", "file.negative", "file.scientific", "file.nan-inf", "file.before-genesis", "file.far-future", "file.thresholds", "file.generated",
		"ct.absent", "ct.valid", "ct.malformed", "ct.zero-divider", "ct.negative-multiplier", "ct.unreadable",
		"value.scaled", "value.negative", "value.fractional", "value.unspecified", "csv-stop.eof", "csv-stop.csv-error")
	res.Extra["genesis"] = G
	res.Rule = "energy files built from line templates (header variants or none; timestamps around genesis, far future, unparsable; readings integer/decimal/negative/scientific/huge/NaN/Inf/garbage/quoted; 1..3 columns, blank lines, bare quotes, CRLF) read under calibrations loaded from generated calibration files by the real readCTSettingsFile; non-trivial = at least one record and at least one skipped row or sentinel value; distinct by (file bytes, multiplier, divider)"
	return res, nil
}

// energyCT: the calibration a client currently holds.
func energyCT(c *client.Client) (float64, float64) { return c.VerifCT() }

func pickStr(r *core.RNG, xs []string) string { return xs[r.Intn(len(xs))] }
