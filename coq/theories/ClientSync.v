(* The synchronisation protocol between a device and a GCA server.
     server side : server/sync_listener_tcp.go  managedHandleSyncConn   -> [sync_reply]
     client side : client/reports.go            staticServerSync        -> [client_recv], [parse_reply]
                                                 threadedSyncWithServer  -> [sync_round], [apply_sync]
                                                 threadedSendReports (sync trigger) -> [tick_step]
                   client/client.go             loadGCAPub, loadGCAServers, loadShortID -> [client_load]
   Definitions only; proofs are in ClientSync_lemmas.v.

   Conventions.  Every Go slice expression / index is [sub] / [idx], which return None when
   Go would panic ("slice bounds out of range"); the callers turn None into the explicit
   outcome PPanic.  uint16 / uint64 arithmetic is written with Wrap.u16 / Wrap.u64.
   Signature verification is the Section variable [verify key message signature].
   The behaviour of two revisions of the code is described by a [version] record:
   [v_prefix] is the code before the two repairs (D9, D10), [v_fixed] the repaired code. *)
From Coq Require Import ZArith List Bool String.
From Coq.Strings Require Import Byte.
From GCA Require Import Wrap Bytes CodecSync.
Import ListNotations.
Open Scope Z_scope.

(* ---------------------------------------------------------------- Go slices *)
(* b[lo:hi] on a slice whose capacity equals its length (make([]byte, n)) *)
Definition sub (b : bytes) (lo hi : Z) : option bytes :=
  if (0 <=? lo) && (lo <=? hi) && (hi <=? Z.of_nat (length b))
  then Some (firstn (Z.to_nat (hi - lo)) (skipn (Z.to_nat lo) b)) else None.
(* b[i] *)
Definition idx (b : bytes) (i : Z) : option byte :=
  if 0 <=? i then nth_error b (Z.to_nat i) else None.

(* ---------------------------------------------------------------- server side *)
(* What managedHandleSyncConn reads under the server lock for a known device. *)
Record sview := { sv_key : bytes;            (* equipment.PublicKey *)
                  sv_offset : Z;             (* equipmentReportsOffset *)
                  sv_powers : list Z;        (* PowerOutput of the 4032 slots of the window *)
                  sv_mig : option migration; (* equipmentMigrations[equipment.PublicKey] *)
                  sv_servers : list aserver; (* gcaServers.servers *)
                  sv_time : Z }.             (* time.Now().Unix() *)

Fixpoint bits_val (l : list bool) : Z :=
  match l with [] => 0 | b :: r => Z.b2z b + 2 * bits_val r end.
(* n bytes; bit (i mod 8) of byte (i / 8) is element i of the list: bitfield[i/8] |= 1 << (i%8) *)
Fixpoint pack_bits (n : nat) (l : list bool) : bytes :=
  match n with O => [] | S n' => z2b (bits_val (firstn 8 l)) :: pack_bits n' (skipn 8 l) end.
Definition has_record (p : Z) : bool := 0 <? p.        (* report.PowerOutput > 0 *)
Definition bitfield_of (powers : list Z) : bytes := pack_bits 504 (map has_record powers).
(* the client's test: bitfield[i/8] & (1 << (i%8)) != 0 *)
Definition test_bit (bf : bytes) (i : nat) : option bool :=
  match nth_error bf (i / 8) with
  | Some b => Some (Z.testbit (b2z b) (Z.of_nat (i mod 8)))
  | None => None
  end.

Definition reply_tail (v : sview) : bytes :=
  match sv_mig v with
  | Some m => mg_tail m ++ pad 64 (mg_sig m)                                   (* Serialize()[32:] *)
  | None => zeros 36 ++ List.concat (map as_serialize (sv_servers v)) ++ zeros 64   (* blank GCA, id, signature *)
  end.
Definition reply_body (v : sview) : bytes :=
  pad 32 (sv_key v) ++ le_enc 4 (sv_offset v) ++ bitfield_of (sv_powers v) ++ reply_tail v ++
  le_enc 8 (sv_time v).
(* the bytes written to the connection; [sg] is glow.Sign(resp[2:], serverKey).
   The length prefix is uint16(len(resp) - 2): truncated when the reply does not fit *)
Definition sync_reply (v : sview) (sg : bytes) : bytes :=
  let b := reply_body v ++ pad 64 sg in le_enc 2 (Z.of_nat (length b)) ++ b.
Definition sync_refusal : bytes := [x00].      (* unknown short id: one zero byte, then close *)

Definition sview_wf (v : sview) : Prop :=
  length (sv_key v) = 32%nat /\ 0 <= sv_offset v < 2^32 /\ length (sv_powers v) = 4032%nat /\
  match sv_mig v with
  | Some m => migration_wf m /\ mg_equipment m = sv_key v
  | None => Forall aserver_wf (sv_servers v)
  end.

(* ---------------------------------------------------------------- client side: parser *)
Record parsed := { p_offset : Z; p_bitfield : bytes; p_newgca : bytes; p_newid : Z;
                   p_servers : list aserver }.
Inductive perr := ERead | EShort | ETime | ESig | EKey | EMigSig | ESrvLen | ESrvSig.
Inductive presult := POk (r : parsed) | PErr (e : perr) | PPanic | PFuel.

Inductive sres := SOk (l : list aserver) | SErr | SPanic | SFuel.
(* the loop "for i < end" of staticServerSync; [e] is end *)
Fixpoint parse_servers (fuel : nat) (b : bytes) (i e : Z) (acc : list aserver) : sres :=
  match fuel with
  | O => SFuel
  | S f =>
      if i <? e then
        if e <? i + 34 then SErr else
        match sub b i (i + 32), idx b (i + 32), idx b (i + 33) with
        | Some k, Some bn, Some ll =>
            let L := b2z ll in
            let j := i + 34 in
            if e <? j + L + 70 then SErr else
            match sub b j (j + L), sub b (j + L) (j + L + 2), sub b (j + L + 2) (j + L + 4),
                  sub b (j + L + 4) (j + L + 6), sub b (j + L + 6) (Z.of_nat (length b)) with
            | Some loc, Some h, Some t, Some u, Some sg =>
                parse_servers f b (j + L + 70) e
                  ({| as_key := k; as_banned := negb (Byte.eqb bn x00); as_loc := loc;
                      as_http := le_dec h; as_tcp := le_dec t; as_udp := le_dec u;
                      as_sig := pad 64 sg |} :: acc)        (* copy(as.GCAAuthorization[:], respBuf[i:]) *)
            | _, _, _, _, _ => SPanic
            end
        | _, _, _ => SPanic
        end
      else SOk (rev acc)
  end.

Section WithVerify.
  Variable verify : bytes -> bytes -> bytes -> bool.      (* key, message, signature *)

  (* staticServerSync after respBuf (b, of respLen bytes) has been read *)
  Definition parse_reply (mykey skey gkey : bytes) (now : Z) (b : bytes) : presult :=
    let n := Z.of_nat (length b) in
    match sub b (u16 (n - 72)) n with
    | None => PPanic
    | Some tb =>
    match sub tb 0 8 with                       (* binary.LittleEndian.Uint64 *)
    | None => PPanic
    | Some t8 =>
    let st := le_dec t8 in
    let nw := u64 now in
    if (u64 (nw + 86400) <? st) || (st <? u64 (nw - 86400)) then PErr ETime else
    match sub b (u16 (n - 64)) n, sub b 0 (u16 (n - 64)) with
    | Some sg, Some msg =>
    if negb (verify skey msg (pad 64 sg)) then PErr ESig else
    match sub b 0 32, sub b 32 36, sub b 36 540, sub b 540 572, sub b 572 576,
          sub b (u16 (n - 136)) (u16 (n - 72)) with
    | Some ek, Some off, Some bf, Some ng, Some nid, Some gsig =>
    if negb (bytes_eqb ek mykey) then PErr EKey else
    match sub b 540 (u16 (n - 136)) with
    | None => PPanic
    | Some mb =>
    if negb (is_blank ng) && negb (verify gkey (ascii_bytes "EquipmentMigration" ++ ek ++ mb) (pad 64 gsig))
    then PErr EMigSig else
    match parse_servers (S (length b)) b 576 (n - 136) [] with
    | SPanic => PPanic
    | SFuel => PFuel
    | SErr => PErr ESrvLen
    | SOk servers =>
        let who := if is_blank ng then gkey else ng in
        if forallb (fun s => verify who (as_signing_bytes s) (as_sig s)) servers
        then POk {| p_offset := le_dec off; p_bitfield := bf; p_newgca := ng; p_newid := le_dec nid;
                    p_servers := servers |}
        else PErr ESrvSig
    end end
    | _, _, _, _, _, _ => PPanic
    end
    | _, _ => PPanic
    end end end.

  (* The whole receive path: [stream] is everything the peer sends before it closes the
     connection.  [minlen] is the smallest response length the client accepts
     (0 = no check, the code before the repair of D10). *)
  Definition client_recv (minlen : Z) (mykey skey gkey : bytes) (now : Z) (stream : bytes) : presult :=
    match stream with
    | l0 :: l1 :: rest =>
        let n := le_dec [l0; l1] in
        if n <? minlen then PErr EShort else
        if (Z.of_nat (length rest) <? n) then PErr ERead else
        parse_reply mykey skey gkey now (firstn (Z.to_nat n) rest)
    | _ => PErr ERead
    end.

  (* ---------------------------------------------------------------- client state *)
  Record cfiles := { f_gca : bytes; f_id : bytes; f_map : bytes }.   (* gcaPubKey.dat shortID.dat gcaServers.dat *)
  Record cstate := { c_gca : bytes; c_id : Z; c_servers : smap; c_primary : bytes;
                     c_locked : bool; c_files : cfiles }.
  Definition set_lock (st : cstate) (l : bool) : cstate :=
    {| c_gca := c_gca st; c_id := c_id st; c_servers := c_servers st; c_primary := c_primary st;
       c_locked := l; c_files := c_files st |}.
  Definition set_primary (st : cstate) (k : bytes) : cstate :=
    {| c_gca := c_gca st; c_id := c_id st; c_servers := c_servers st; c_primary := k;
       c_locked := c_locked st; c_files := c_files st |}.
  (* what the properties call the identity of the client *)
  Definition identity (st : cstate) := (c_gca st, c_id st, c_servers st).

  (* the rule "!exists || s.Banned" *)
  Definition merge_one (m : smap) (s : aserver) : smap :=
    match smap_get (as_key s) m with
    | Some _ => if as_banned s then smap_set (as_key s) (gserver_of s) m else m
    | None => smap_set (as_key s) (gserver_of s) m
    end.
  Definition merge (m : smap) (l : list aserver) : smap := fold_left merge_one l m.

  Definition is_migration (st : cstate) (r : parsed) : bool :=
    negb (bytes_eqb (p_newgca r) (c_gca st)) && negb (is_blank (p_newgca r)).

  (* the critical section after a successful attempt; None = panic(err) *)
  Definition apply_sync (st : cstate) (r : parsed) : option cstate :=
    if is_migration st r then
      let nm := merge [] (p_servers r) in
      match smap_serialize nm with
      | None => None
      | Some raw =>
          Some {| c_gca := p_newgca r; c_id := p_newid r; c_servers := nm; c_primary := c_primary st;
                  c_locked := c_locked st;
                  c_files := {| f_gca := p_newgca r; f_id := le_enc 4 (p_newid r); f_map := raw |} |}
      end
    else
      let nm := merge (c_servers st) (p_servers r) in
      match smap_serialize nm with
      | None => None
      | Some raw =>
          Some {| c_gca := c_gca st; c_id := c_id st; c_servers := nm; c_primary := c_primary st;
                  c_locked := c_locked st;
                  c_files := {| f_gca := f_gca (c_files st); f_id := f_id (c_files st); f_map := raw |} |}
      end.

  (* ---------------------------------------------------------------- one sync round *)
  Record version := { v_minlen : Z; v_unlock_notfound : bool }.
  Definition v_fixed : version := {| v_minlen := 712; v_unlock_notfound := true |}.
  Definition v_prefix : version := {| v_minlen := 0; v_unlock_notfound := false |}.

  (* what happens on the connection of one attempt *)
  Inductive outcome :=
  | ODialFail                      (* net.Dial fails *)
  | OClosed (sent : bytes)         (* peer sends these bytes, then the connection ends (close or reset) *)
  | OHang.                         (* peer keeps the connection open and stays silent: the read never returns *)
  (* inputs of one iteration: is the client being stopped (tg.Sleep = false), the shuffled key
     array, what the chosen server does, the client's clock *)
  Inductive attempt := AStop | ATry (ord : list bytes) (o : outcome) (now : Z).

  Definition admissible (failed : list bytes) (m : smap) (k : bytes) : bool :=
    match smap_get k m with
    | Some g => negb (existsb (bytes_eqb k) failed) && negb (g_banned g)
    | None => false
    end.
  Definition select (ord failed : list bytes) (m : smap) : option bytes := find (admissible failed m) ord.

  Inductive lres := LGot (r : parsed) | LGiveUp | LStopped | LNotFound | LHang | LPanic | LBlocked | LFuel.

  (* iteration i of "for i := 0; i < 6; i++" with k = 5 - i iterations left before giving up;
     returns the state, the result and the servers contacted (latest first) *)
  Fixpoint sync_loop (ver : version) (mykey gk : bytes) (att : nat -> attempt) (k i : nat)
           (failed : list bytes) (tr : list bytes) (st : cstate) : cstate * lres * list bytes :=
    match k with
    | O => (st, LGiveUp, tr)
    | S k' =>
        match att i with
        | AStop => (st, LStopped, tr)
        | ATry ord o now =>
            if c_locked st then (st, LBlocked, tr) else         (* c.mu.Lock() *)
            match select ord failed (c_servers st) with
            | None => (set_lock st (negb (v_unlock_notfound ver)), LNotFound, tr)
            | Some key =>
                let st1 := set_primary st key in                (* ... c.mu.Unlock() *)
                let tr1 := key :: tr in
                match o with
                | ODialFail => sync_loop ver mykey gk att k' (S i) (key :: failed) tr1 st1
                | OHang => (st1, LHang, tr1)
                | OClosed s =>
                    match client_recv (v_minlen ver) mykey key gk now s with
                    | POk r => (st1, LGot r, tr1)
                    | PErr _ => sync_loop ver mykey gk att k' (S i) (key :: failed) tr1 st1
                    | PPanic => (st1, LPanic, tr1)
                    | PFuel => (st1, LFuel, tr1)
                    end
                end
            end
        end
    end.

  Inductive rres := RTrue | RFalse | RPanic | RHang | RBlocked | RFuel.

  (* threadedSyncWithServer: (final state, result, servers contacted in order) *)
  Definition sync_round (ver : version) (mykey : bytes) (st : cstate) (att : nat -> attempt)
    : cstate * rres * list bytes :=
    if c_locked st then (st, RBlocked, []) else              (* first Lock/Unlock pair: reads only *)
    let gk := c_gca st in
    match sync_loop ver mykey gk att 5 0 [] [] st with
    | (st1, LGot r, tr) =>
        if c_locked st1 then (st1, RBlocked, rev tr) else
        match apply_sync st1 r with                          (* Lock ... Unlock *)
        | Some st2 => (st2, RTrue, rev tr)
        | None => (set_lock st1 true, RPanic, rev tr)        (* panic(err) inside the critical section *)
        end
    | (st1, LGiveUp, tr) | (st1, LStopped, tr) | (st1, LNotFound, tr) => (st1, RFalse, rev tr)
    | (st1, LHang, tr) => (st1, RHang, rev tr)
    | (st1, LPanic, tr) => (st1, RPanic, rev tr)
    | (st1, LBlocked, tr) => (st1, RBlocked, rev tr)
    | (st1, LFuel, tr) => (st1, RFuel, rev tr)
    end.

  (* ---------------------------------------------------------------- start-up *)
  Inductive ldres := LdOk (st : cstate) | LdErr | LdPanic.
  Definition pick_primary (ord : list bytes) (m : smap) : bytes :=
    match find (admissible [] m) ord with Some k => k | None => blank_key end.
  (* loadGCAPub (os.ReadFile returns a slice with spare zeroed capacity, so data[:32] of a
     short file is zero-filled), loadGCAServers, loadShortID (Uint32 panics below 4 bytes) *)
  Definition client_load (fs : cfiles) (ord : list bytes) : ldres :=
    match smap_deserialize (f_map fs) with
    | DOk [] => LdErr
    | DOk m =>
        if (length (f_id fs) <? 4)%nat then LdPanic else
        LdOk {| c_gca := pad 32 (f_gca fs); c_id := le_dec (firstn 4 (f_id fs)); c_servers := m;
                c_primary := pick_primary ord m; c_locked := false; c_files := fs |}
    | _ => LdErr
    end.

  (* ---------------------------------------------------------------- client histories *)
  Inductive cop := CSync (att : nat -> attempt) | CRestart (ord : list bytes).
  (* None: the process is gone (panic) or refuses to start, or the round never returns *)
  Definition cstep (ver : version) (mykey : bytes) (st : cstate) (op : cop) : option cstate :=
    match op with
    | CSync att =>
        match sync_round ver mykey st att with
        | (st', RTrue, _) | (st', RFalse, _) => Some st'
        | _ => None
        end
    | CRestart ord =>
        match client_load (c_files st) ord with LdOk st' => Some st' | _ => None end
    end.
  Fixpoint crun (ver : version) (mykey : bytes) (st : cstate) (ops : list cop) : option cstate :=
    match ops with
    | [] => Some st
    | op :: ops' => match cstep ver mykey st op with Some st' => crun ver mykey st' ops' | None => None end
    end.

  (* a known ban is still known *)
  Definition ban_le (a b : smap) : Prop :=
    forall k g, smap_get k a = Some g -> g_banned g = true ->
                exists g', smap_get k b = Some g' /\ g_banned g' = true.
  (* an entry is unchanged, or the entry now stored for the key is a banned one *)
  Definition entry_keep (a b : smap) : Prop :=
    forall k g, smap_get k a = Some g ->
                exists g', smap_get k b = Some g' /\ (g' = g \/ g_banned g' = true).
  (* the strict reading: unchanged, or it was not banned and now is *)
  Definition entry_le_strict (a b : smap) : Prop :=
    forall k g, smap_get k a = Some g ->
                exists g', smap_get k b = Some g' /\ (g' = g \/ (g_banned g = false /\ g_banned g' = true)).

  (* state invariant: what is on disk is what is in memory *)
  Definition persisted (st : cstate) : Prop :=
    pad 32 (f_gca (c_files st)) = c_gca st /\
    (4 <= length (f_id (c_files st)))%nat /\ le_dec (firstn 4 (f_id (c_files st))) = c_id st /\
    smap_deserialize (f_map (c_files st)) = DOk (c_servers st).
  Definition cstate_wf (st : cstate) : Prop :=
    length (c_gca st) = 32%nat /\ 0 <= c_id st < 2^32 /\ smap_wf (c_servers st).
End WithVerify.

(* ---------------------------------------------------------------- vocabulary of the theorems *)
(* Go: !(now+24*3600 < signingTime || now-24*3600 > signingTime) on uint64 *)
Definition fresh (now st : Z) : bool :=
  negb ((u64 (u64 now + 86400) <? st) || (st <? u64 (u64 now - 86400))).
(* who must have signed the server entries of a reply *)
Definition who_signs (gkey ng : bytes) : bytes := if is_blank ng then gkey else ng.
(* a server the client may contact *)
Definition usable (m : smap) (k : bytes) : Prop := exists g, smap_get k m = Some g /\ g_banned g = false.
(* what the client must extract from the genuine reply for a view *)
Definition view_result (v : sview) : parsed :=
  {| p_offset := sv_offset v; p_bitfield := bitfield_of (sv_powers v);
     p_newgca := match sv_mig v with Some m => mg_newgca m | None => blank_key end;
     p_newid := match sv_mig v with Some m => mg_newid m | None => 0 end;
     p_servers := match sv_mig v with Some m => mg_servers m | None => sv_servers v end |}.

Section Vocabulary.
  Variable verify : bytes -> bytes -> bytes -> bool.

  (* the signatures a genuine view carries *)
  Definition view_signed (gkey : bytes) (v : sview) : Prop :=
    match sv_mig v with
    | Some m => (is_blank (mg_newgca m) = false -> verify gkey (mg_signing_bytes m) (mg_sig m) = true) /\
                Forall (fun s => verify (who_signs gkey (mg_newgca m)) (as_signing_bytes s) (as_sig s) = true) (mg_servers m)
    | None => Forall (fun s => verify gkey (as_signing_bytes s) (as_sig s) = true) (sv_servers v)
    end.

  (* everything the client has checked when staticServerSync returns without error; b is the
     response body (respBuf) *)
  Record accepted (mykey skey gkey : bytes) (now : Z) (b : bytes) (r : parsed) : Prop := {
    acc_len : 712 <= Z.of_nat (length b) < 65536;
    acc_outer : exists msg sg, sub b 0 (Z.of_nat (length b) - 64) = Some msg /\
                  sub b (Z.of_nat (length b) - 64) (Z.of_nat (length b)) = Some sg /\
                  verify skey msg sg = true;
    acc_time : exists t8, sub b (Z.of_nat (length b) - 72) (Z.of_nat (length b) - 64) = Some t8 /\
                  fresh now (le_dec t8) = true;
    acc_key : sub b 0 32 = Some mykey;
    acc_offset : exists off, sub b 32 36 = Some off /\ p_offset r = le_dec off;
    acc_bitfield : sub b 36 540 = Some (p_bitfield r);
    acc_newgca : sub b 540 572 = Some (p_newgca r);
    acc_newid : exists nid, sub b 572 576 = Some nid /\ p_newid r = le_dec nid;
    acc_migration : is_blank (p_newgca r) = false ->
                  exists mb gsig, sub b 540 (Z.of_nat (length b) - 136) = Some mb /\
                    sub b (Z.of_nat (length b) - 136) (Z.of_nat (length b) - 72) = Some gsig /\
                    verify gkey (ascii_bytes "EquipmentMigration" ++ mykey ++ mb) gsig = true;
    acc_list : parse_servers (S (length b)) b 576 (Z.of_nat (length b) - 136) [] = SOk (p_servers r);
    acc_servers : Forall (fun s => verify (who_signs gkey (p_newgca r)) (as_signing_bytes s) (as_sig s) = true) (p_servers r);
    acc_shape : Forall aserver_wf (p_servers r)
  }.

  (* invariant of a running client: well-formed, what is on disk is what is in memory, mutex free *)
  Definition Inv (st : cstate) : Prop := cstate_wf st /\ persisted st /\ c_locked st = false.

  (* what one operation (sync round or restart) can do to the client *)
  Inductive step_effect (mykey : bytes) (st st' : cstate) : Prop :=
  | EffKeep :           (* same GCA and id; entries kept or banned; new entries signed by the GCA *)
      c_gca st' = c_gca st -> c_id st' = c_id st ->
      ban_le (c_servers st) (c_servers st') -> entry_keep (c_servers st) (c_servers st') ->
      (forall k g, smap_get k (c_servers st') = Some g ->
          smap_get k (c_servers st) = Some g \/
          exists s, as_key s = k /\ g = gserver_of s /\ verify (c_gca st) (as_signing_bytes s) (as_sig s) = true) ->
      step_effect mykey st st'
  | EffMigrate (mb gsig nid : bytes) (l : list aserver) :   (* an order for this device signed by the current GCA *)
      verify (c_gca st) (ascii_bytes "EquipmentMigration" ++ mykey ++ mb) gsig = true ->
      sub mb 0 32 = Some (c_gca st') -> sub mb 32 36 = Some nid -> c_id st' = le_dec nid ->
      c_gca st' <> c_gca st -> is_blank (c_gca st') = false ->
      Forall (fun s => verify (c_gca st') (as_signing_bytes s) (as_sig s) = true) l ->
      c_servers st' = merge [] l ->
      step_effect mykey st st'.

  (* histories during which the GCA stays the same *)
  Inductive same_gca_run (mykey : bytes) : cstate -> list cop -> cstate -> Prop :=
  | SG_nil st : same_gca_run mykey st [] st
  | SG_cons st op st1 ops st2 :
      cstep verify v_fixed mykey st op = Some st1 -> c_gca st1 = c_gca st ->
      same_gca_run mykey st1 ops st2 -> same_gca_run mykey st (op :: ops) st2.
End Vocabulary.

(* ---------------------------------------------------------------- sync trigger *)
(* end of an iteration of threadedSendReports:  ticks++ ; if ticks >= 60 ||
   (syncStatus == 0 && ticks%4 == 3) { ticks = 0; launch sync }.
   [ok] is the value of syncStatus at that moment (set asynchronously by earlier rounds). *)
Definition tick_step (ticks : Z) (ok : bool) : Z * bool :=
  let t := ticks + 1 in
  if (60 <=? t) || (negb ok && (t mod 4 =? 3)) then (0, true) else (t, false).
(* the iteration first takes the client lock: a held lock wedges the loop *)
Definition send_iter (locked : bool) (ticks : Z) (ok : bool) : option (Z * bool) :=
  if locked then None else Some (tick_step ticks ok).
(* run the loop over a sequence of syncStatus values; true when some iteration launched a sync *)
Fixpoint ticks_run (ticks : Z) (oks : list bool) : Z * bool :=
  match oks with
  | [] => (ticks, false)
  | ok :: r => let '(t, fired) := tick_step ticks ok in
               if fired then (t, true) else ticks_run t r
  end.
