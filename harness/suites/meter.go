//go:build test

package suites

// C09 (wire half): a real client.NewClient on a prepared directory, its only
// server entry pointing at a local UDP sink.  The energy file is edited by a
// random script (append, rewrite, duplicate with another value, reorder,
// delete, malformed, rows before the history origin), the client is restarted
// in between, and every datagram it emits is captured.
//
// Synchronisation without touching the report loop: every file content ends
// with a row whose first field is a unique non-numeric token; the client logs
// "invalid timestamp in energy file: <token>" each time it parses that row, so
// the number of times a content has been read (start-up + ticks) is visible in
// the client's public event log.  A content is considered processed by one
// full tick when it has been read by a second tick (the loop is sequential).
// A tick on an unchanged content is idempotent (no emission, same state), so
// the model processes each content once.
//
// Two deterministic scenarios exercise K2 (readings that do not fit 32 signed
// bits): a same-tick duplicate, and a real retransmission obtained from a real
// server's sync reply (the client's server entry uses the real server's TCP
// port and the sink's UDP port, so the server misses every report).

import (
	"bytes"
	"encoding/binary"
	"fmt"
	"net"
	"os"
	"path/filepath"
	"sort"
	"strings"
	"sync"
	"time"

	"github.com/glowlabs-org/gca-backend/client"
	"github.com/glowlabs-org/gca-backend/glow"
	"github.com/glowlabs-org/gca-backend/server"
	"verifharness/core"
)

func init() { core.Register("meter", meterSuite) }

// ---------------------------------------------------------------- UDP sink

type udpSink struct {
	conn *net.UDPConn
	mu   sync.Mutex
	got  [][]byte
	last time.Time
}

func newUDPSink() (*udpSink, error) {
	conn, err := net.ListenUDP("udp", &net.UDPAddr{IP: net.IPv4(127, 0, 0, 1), Port: 0})
	if err != nil {
		return nil, err
	}
	conn.SetReadBuffer(1 << 20)
	s := &udpSink{conn: conn}
	go func() {
		buf := make([]byte, 2048)
		for {
			n, _, err := conn.ReadFromUDP(buf)
			if err != nil {
				return
			}
			s.mu.Lock()
			s.got = append(s.got, append([]byte{}, buf[:n]...))
			s.last = time.Now()
			s.mu.Unlock()
		}
	}()
	return s, nil
}
func (s *udpSink) port() uint16 { return uint16(s.conn.LocalAddr().(*net.UDPAddr).Port) }

// drain waits until nothing has arrived for quiet, then returns what was captured.
func (s *udpSink) drain(quiet time.Duration) [][]byte {
	for {
		s.mu.Lock()
		idle := time.Since(s.last)
		s.mu.Unlock()
		if idle >= quiet {
			break
		}
		time.Sleep(quiet - idle + time.Millisecond)
	}
	s.mu.Lock()
	defer s.mu.Unlock()
	out := s.got
	s.got = nil
	return out
}
func (s *udpSink) close() { s.conn.Close() }

// ---------------------------------------------------------------- scenario

type meterRow struct {
	Slot int64  // relative to genesis
	Jit  int64  // seconds inside the slot
	Val  string // reading as written
}

type meterEvent struct {
	Kind    string      `json:"kind"` // restart | tick | resend | tick+resend
	Content string      `json:"content,omitempty"`
	Recs    [][2]uint64 `json:"records,omitempty"` // (slot, energy) the real reader returns for the content
	From    uint32      `json:"from,omitempty"`
	N       uint32      `json:"n,omitempty"`
	Rounds  int         `json:"rounds,omitempty"` // completed scans of the sync loop
	Out     [][2]uint64 `json:"emitted"`
	Raw     []string    `json:"-"`
}

type meterCase struct {
	Class   string       `json:"class"`
	Origin  uint32       `json:"origin"`
	Initial []byte       `json:"-"`
	InitHex string       `json:"initial_history"`
	CT      string       `json:"ct_file,omitempty"`
	Events  []meterEvent `json:"events"`
	Final   []byte       `json:"-"`
	ShortID uint32       `json:"short_id"`

	discarded bool
	failures  []core.Failure
	err       error
}

type meterPlan struct {
	class   string
	origin  uint32
	initial []byte
	ct      string
	// steps: each is a file content; restart[i] = restart the client before it reads content i
	contents []string
	restart  []bool
	// real retransmission: a real server answers the sync after the last content
	resend bool
}

const meterProbePrefix = "invalid timestamp in energy file: "

func probeCount(c *client.Client, token string) int {
	m, _ := c.EventLog.DumpLogEntries()
	return len(m[meterProbePrefix+token])
}

func fits32(p uint64) bool { return uint64(int64(int32(uint32(p)))) == p }

func writeAtomic(path string, data []byte) error {
	tmp := path + ".tmp"
	if err := os.WriteFile(tmp, data, 0644); err != nil {
		return err
	}
	return os.Rename(tmp, path)
}

// runMeterCase drives one real client through the plan.
func runMeterCase(idx int, plan meterPlan) *meterCase {
	mc := &meterCase{Class: plan.class, Origin: plan.origin, Initial: plan.initial, InitHex: fmt.Sprintf("%x", plan.initial), CT: plan.ct}
	fail := func(what, key string, extra map[string]interface{}) {
		rp := map[string]interface{}{"case": mc}
		for k, v := range extra {
			rp[k] = v
		}
		mc.failures = append(mc.failures, core.Failure{What: what, Key: key, Replay: rp})
	}
	dir, err := os.MkdirTemp("", fmt.Sprintf("vh-meter-%d-", idx))
	if err != nil {
		mc.err = err
		return mc
	}
	defer os.RemoveAll(dir)
	rdir := filepath.Join(dir, "reader")
	cdir := filepath.Join(dir, "client")
	os.MkdirAll(rdir, 0755)
	os.MkdirAll(cdir, 0755)
	sink, err := newUDPSink()
	if err != nil {
		mc.err = err
		return mc
	}
	defer sink.close()

	// identity
	pub, priv := glow.GenerateKeyPair()
	keys := make([]byte, 96)
	copy(keys[:32], pub[:])
	copy(keys[32:], priv[:])
	shortID := uint32(1 + idx)
	mc.ShortID = shortID
	var sid [4]byte
	binary.LittleEndian.PutUint32(sid[:], shortID)
	gcaPub, gcaPriv := glow.GenerateKeyPair()
	srvKey, _ := glow.GenerateKeyPair()
	tcpPort := uint16(1) // nothing listens there
	var gcas *server.GCAServer
	if plan.resend {
		var e error
		gcas, _, gcaPub, gcaPriv, e = server.SetupTestEnvironment(fmt.Sprintf("vh-meter-server-%d", idx))
		if e != nil {
			mc.err = e
			return mc
		}
		defer func() {
			gcas.Close()
			os.RemoveAll(gcas.BaseDir())
		}()
		ea := glow.EquipmentAuthorization{ShortID: shortID, PublicKey: pub, Latitude: 38, Longitude: -100, Capacity: 1 << 40, Debt: 1, Expiration: 100e6}
		if e := gcas.AuthorizeEquipment(ea, gcaPriv); e != nil {
			mc.err = e
			return mc
		}
		_, tcpPort, _ = gcas.Ports()
		srvKey = gcas.PublicKey()
	}
	_ = gcaPriv
	smap, err := client.SerializeGCAServerMap(map[glow.PublicKey]client.GCAServer{srvKey: {Location: "127.0.0.1", HttpPort: 1, TcpPort: tcpPort, UdpPort: sink.port()}})
	if err != nil {
		mc.err = err
		return mc
	}
	files := map[string][]byte{client.ClientKeyFile: keys, client.GCAPubKeyFile: gcaPub[:], client.GCAServerMapFile: smap,
		client.HistoryFile: plan.initial, client.ShortIDFile: sid[:]}
	for name, data := range files {
		if err := os.WriteFile(filepath.Join(cdir, name), data, 0644); err != nil {
			mc.err = err
			return mc
		}
	}
	if plan.ct != "" {
		os.WriteFile(filepath.Join(cdir, client.CTSettingsFile), []byte(plan.ct), 0644)
		os.WriteFile(filepath.Join(rdir, client.CTSettingsFile), []byte(plan.ct), 0644)
	}
	reader, err := client.VerifNewBareClient(rdir, false)
	if err != nil {
		mc.err = err
		return mc
	}
	if _, _, err := reader.VerifReadCTSettings(); err != nil {
		mc.err = fmt.Errorf("calibration file of the plan is invalid: %v", err)
		return mc
	}
	epath := filepath.Join(cdir, client.EnergyFile)
	readRecs := func(content string) ([][2]uint64, []client.EnergyRecord) {
		os.WriteFile(reader.VerifEnergyFilePath(), []byte(content), 0644)
		recs, _ := reader.VerifReadEnergyFile()
		out := make([][2]uint64, len(recs))
		for i, r := range recs {
			out[i] = [2]uint64{uint64(r.Timeslot), r.Energy}
		}
		return out, recs
	}
	decode := func(dgs [][]byte, where string) [][2]uint64 {
		var out [][2]uint64
		for _, d := range dgs {
			rep, err := glow.DeserializeReport(d)
			if err != nil || len(d) != 80 {
				fail(fmt.Sprintf("datagram of %d bytes is not a report", len(d)), "bad-datagram", map[string]interface{}{"at": where, "datagram": fmt.Sprintf("%x", d)})
				continue
			}
			if rep.ShortID != shortID {
				fail("datagram carries another short id", "bad-short-id", map[string]interface{}{"at": where})
			}
			if !glow.Verify(pub, rep.SigningBytes(), rep.Signature) {
				fail("datagram signature does not verify under the device key", "bad-signature", map[string]interface{}{"at": where, "datagram": fmt.Sprintf("%x", d)})
			}
			// glow.Sign is deterministic: the datagram is a function of (id, slot, power)
			again := glow.EquipmentReport{ShortID: rep.ShortID, Timeslot: rep.Timeslot, PowerOutput: rep.PowerOutput}
			again.Signature = glow.Sign(again.SigningBytes(), priv)
			if !bytes.Equal(again.Serialize(), d) {
				fail("signing the same report again gives different bytes", "nondeterministic-signature", map[string]interface{}{"at": where})
			}
			out = append(out, [2]uint64{uint64(rep.Timeslot), rep.PowerOutput})
		}
		return out
	}
	rawHex := func(dgs [][]byte) []string {
		var out []string
		for _, d := range dgs {
			out = append(out, fmt.Sprintf("%x", d))
		}
		return out
	}

	var c *client.Client
	closeClient := func() {
		if c != nil {
			c.Close()
			c = nil
		}
	}
	defer closeClient()
	waitReads := func(token string, n int) bool {
		deadline := time.Now().Add(8 * time.Second)
		for time.Now().Before(deadline) {
			if probeCount(c, token) >= n {
				return true
			}
			time.Sleep(4 * time.Millisecond)
		}
		return false
	}
	var lastRecs [][2]uint64
	for i, body := range plan.contents {
		token := fmt.Sprintf("probe-%d-%d", idx, i)
		content := body + token + ",0\n"
		recs, _ := readRecs(content)
		if i == 0 || plan.restart[i] {
			closeClient()
			if plan.resend && i == len(plan.contents)-1 {
				// make the coming instance sync right after its first tick
				os.WriteFile(filepath.Join(cdir, client.LastSyncFile), []byte("0"), 0644)
			}
			if err := writeAtomic(epath, []byte(content)); err != nil {
				mc.err = err
				return mc
			}
			var e error
			c, e = client.NewClient(cdir)
			if e != nil {
				mc.err = fmt.Errorf("NewClient: %v", e)
				return mc
			}
			if !waitReads(token, 3) {
				mc.discarded = true
				return mc
			}
			mc.Events = append(mc.Events, meterEvent{Kind: "restart", Content: content, Recs: recs, Out: [][2]uint64{}})
			if plan.resend && i == len(plan.contents)-1 {
				// the sync thread of this instance is already on its way: its retransmissions cannot be told apart
				// from the tick's datagrams by time, they are collected together below
				lastRecs = recs
				break
			}
			dgs := sink.drain(12 * time.Millisecond)
			mc.Events = append(mc.Events, meterEvent{Kind: "tick", Content: content, Recs: recs, Out: decode(dgs, fmt.Sprintf("content %d", i)), Raw: rawHex(dgs)})
		} else {
			if err := writeAtomic(epath, []byte(content)); err != nil {
				mc.err = err
				return mc
			}
			if !waitReads(token, 2) {
				mc.discarded = true
				return mc
			}
			dgs := sink.drain(12 * time.Millisecond)
			mc.Events = append(mc.Events, meterEvent{Kind: "tick", Content: content, Recs: recs, Out: decode(dgs, fmt.Sprintf("content %d", i)), Raw: rawHex(dgs)})
		}
	}
	if plan.resend {
		// wait for a sync with the real server to complete, stop the client (a scan that has started always
		// runs to its end and logs its success), then collect the retransmissions of all completed scans
		syncs := func() int {
			m, _ := c.EventLog.DumpLogEntries()
			n := 0
			for line, times := range m {
				if strings.HasPrefix(line, "successful sync with") {
					n += len(times)
				}
			}
			return n
		}
		deadline := time.Now().Add(10 * time.Second)
		for time.Now().Before(deadline) && syncs() == 0 {
			time.Sleep(5 * time.Millisecond)
		}
		cc := c
		closeClient()
		c = cc
		rounds := syncs()
		c = nil
		if rounds == 0 {
			mc.discarded = true
			return mc
		}
		dgs := sink.drain(30 * time.Millisecond)
		latest := uint32(0)
		for _, ev := range mc.Events {
			for _, r := range ev.Recs {
				if uint32(r[0]) > latest {
					latest = uint32(r[0])
				}
			}
		}
		// the server holds no report of this device: its bitfield is empty from its offset 0, every scan covers 0..latest
		mc.Events = append(mc.Events, meterEvent{Kind: "tick+resend", Recs: lastRecs, From: 0, N: latest + 1, Rounds: rounds, Out: decode(dgs, "resend"), Raw: rawHex(dgs)})
	}
	closeClient()
	mc.Final, _ = os.ReadFile(filepath.Join(cdir, client.HistoryFile))

	// ---------------- property oracle on the captured traffic alone
	// first reading presented for each slot (pre-existing stored values count as presented first)
	stored := func(h []byte, t uint32) uint32 {
		if t < plan.origin {
			return 0
		}
		p := 4 * (1 + int64(t) - int64(plan.origin))
		if p+4 > int64(len(h)) {
			return 0
		}
		return binary.LittleEndian.Uint32(h[p:])
	}
	first := map[uint32]uint32{}
	seenFull := map[uint32]uint64{}
	for _, ev := range mc.Events {
		for _, r := range ev.Recs {
			t, v := uint32(r[0]), uint32(r[1])
			if _, ok := first[t]; ok || v == 0 || t < plan.origin {
				continue
			}
			if s := stored(plan.initial, t); s != 0 {
				first[t] = s
				seenFull[t] = uint64(int64(int32(s)))
			} else {
				first[t] = v
				seenFull[t] = r[1]
			}
		}
	}
	type em struct {
		p    uint64
		raw  string
		kind string
	}
	bySlot := map[uint32][]em{}
	for _, ev := range mc.Events {
		for k, o := range ev.Out {
			raw := ""
			if k < len(ev.Raw) {
				raw = ev.Raw[k]
			}
			if o[1] != 0 && o[1] != 1 {
				bySlot[uint32(o[0])] = append(bySlot[uint32(o[0])], em{o[1], raw, ev.Kind})
			}
		}
	}
	slots := make([]int, 0, len(bySlot))
	for t := range bySlot {
		slots = append(slots, int(t))
	}
	sort.Ints(slots)
	for _, ti := range slots {
		t := uint32(ti)
		ems := bySlot[t]
		for _, e := range ems[1:] {
			if e.raw != ems[0].raw {
				key := "equivocation"
				if !fits32(e.p) || !fits32(ems[0].p) {
					key = "k2-tick"
					if e.kind == "tick+resend" || ems[0].kind == "tick+resend" {
						key = "k2-resend"
					}
				}
				fail(fmt.Sprintf("two different signed reports for slot %d: power %d and %d", t, ems[0].p, e.p), key,
					map[string]interface{}{"slot": t, "first": ems[0].raw, "second": e.raw})
				break
			}
		}
		want, ok := first[t]
		if !ok {
			fail(fmt.Sprintf("report for slot %d although no reading for it was ever presented", t), "unsolicited-report", map[string]interface{}{"slot": t})
			continue
		}
		for _, e := range ems {
			if uint32(e.p) != want || (fits32(seenFull[t]) && e.p != seenFull[t]) {
				key := "not-first-reading"
				if uint32(e.p) == want && !fits32(e.p) {
					key = "k2-tick"
				}
				fail(fmt.Sprintf("report for slot %d carries %d, the first reading accepted for it was %d", t, e.p, seenFull[t]), key, map[string]interface{}{"slot": t})
				break
			}
		}
	}
	// the history file keeps the first reading of every slot
	ts := make([]int, 0, len(first))
	for t := range first {
		ts = append(ts, int(t))
	}
	sort.Ints(ts)
	for _, ti := range ts {
		if got := stored(mc.Final, uint32(ti)); got != first[uint32(ti)] {
			fail(fmt.Sprintf("history holds %d for slot %d, the first reading accepted was %d", got, ti, first[uint32(ti)]), "history-not-first", map[string]interface{}{"slot": ti})
		}
	}
	if !bytes.Equal(mc.Final[:4], plan.initial[:4]) {
		fail("history header changed", "history-header", nil)
	}
	return mc
}

// ---------------------------------------------------------------- generator

func meterContent(G int64, rows []meterRow, header bool) string {
	var sb strings.Builder
	if header {
		sb.WriteString("timestamp,energy (mWh)\n")
	}
	for _, r := range rows {
		fmt.Fprintf(&sb, "%d,%s\n", G+r.Slot*300+r.Jit, r.Val)
	}
	return sb.String()
}

func genMeterPlan(rng *core.RNG, G int64, class string) meterPlan {
	origin := uint32([]int{0, 0, 2, 5, 40}[rng.Intn(5)])
	h := make([]byte, 4)
	binary.LittleEndian.PutUint32(h, origin)
	if rng.Chance(35) { // readings already stored by an earlier life of the device
		n := rng.Range(1, 6)
		for i := 0; i < n; i++ {
			var s [4]byte
			if rng.Chance(50) {
				binary.LittleEndian.PutUint32(s[:], uint32(rng.Range(30, 90000)))
			}
			h = append(h, s[:]...)
		}
	}
	plan := meterPlan{class: class, origin: origin, initial: h}
	if rng.Chance(25) {
		plan.ct = []string{"1\n100\n", "-2000\n1000\n", "3\n7\n", "1\n24\n"}[rng.Intn(4)]
	}
	val := func() string {
		switch k := rng.Intn(100); {
		case k < 55:
			return fmt.Sprint(rng.Range(24, 150000))
		case k < 65:
			return fmt.Sprintf("%d.%d", rng.Range(24, 9000), rng.Intn(1000))
		case k < 75:
			return fmt.Sprint(-rng.Range(24, 150000))
		case k < 83:
			return fmt.Sprint(rng.Range(-23, 23)) // sentinel 2
		case k < 90:
			return []string{"abc", "", "error", "1_0"}[rng.Intn(4)] // sentinel 3
		case k < 95:
			return fmt.Sprint(rng.Range(24, 250)) // becomes 0 or 1 under some calibrations
		default:
			return fmt.Sprint(rng.Range(1<<20, 1<<30))
		}
	}
	next := int64(origin)
	if rng.Chance(30) && origin > 0 {
		next = int64(origin) - int64(rng.Range(1, 2)) // start before the history origin
	}
	var rows []meterRow
	header := rng.Chance(75)
	nContents := rng.Range(5, 9)
	for i := 0; i < nContents; i++ {
		nEdits := rng.Range(1, 3)
		for e := 0; e < nEdits; e++ {
			switch k := rng.Intn(100); {
			case k < 45 || len(rows) == 0: // the meter appends readings
				n := rng.Range(1, 3)
				for j := 0; j < n; j++ {
					rows = append(rows, meterRow{Slot: next, Jit: int64(rng.Intn(300)), Val: val()})
					next += int64(rng.Range(1, 2))
				}
			case k < 60: // rewritten with another value
				rows[rng.Intn(len(rows))].Val = val()
			case k < 75: // duplicated with a different value
				r := rows[rng.Intn(len(rows))]
				r.Val, r.Jit = val(), int64(rng.Intn(300))
				at := rng.Intn(len(rows) + 1)
				rows = append(rows[:at], append([]meterRow{r}, rows[at:]...)...)
			case k < 83: // reordered
				i1, i2 := rng.Intn(len(rows)), rng.Intn(len(rows))
				rows[i1], rows[i2] = rows[i2], rows[i1]
			case k < 90: // deleted
				at := rng.Intn(len(rows))
				rows = append(rows[:at], rows[at+1:]...)
			case k < 95: // a reading for a slot far ahead, then the meter continues behind it
				rows = append(rows, meterRow{Slot: next + int64(rng.Range(3, 30)), Jit: 0, Val: val()})
			default: // reading for a slot before the history origin
				rows = append(rows, meterRow{Slot: int64(origin) - int64(rng.Range(1, 3)), Jit: 5, Val: val()})
			}
		}
		var usable []meterRow
		for _, r := range rows {
			if r.Slot >= 0 {
				usable = append(usable, r)
			}
		}
		plan.contents = append(plan.contents, meterContent(G, usable, header))
		plan.restart = append(plan.restart, i > 0 && rng.Chance(28))
	}
	return plan
}

func meterSuite(seed uint64, tier, outDir string) (*core.Result, error) {
	res := core.NewResult("meter", seed, tier)
	rng := core.NewRNG(seed ^ 0x6d65746572)
	G := glow.GenesisTime
	nGen, par := 14, 7
	if tier == "thorough" {
		nGen, par = 300, 10
	}
	var plans []meterPlan
	hdr := func(o uint32, slots ...uint32) []byte {
		b := make([]byte, 4+4*len(slots))
		binary.LittleEndian.PutUint32(b, o)
		for i, s := range slots {
			binary.LittleEndian.PutUint32(b[4+4*i:], s)
		}
		return b
	}
	row := func(slot int64, v string) string { return fmt.Sprintf("%d,%s\n", G+slot*300+7, v) }
	// deterministic scenarios
	plans = append(plans,
		meterPlan{class: "rewrite-after-send", origin: 0, initial: hdr(0),
			contents: []string{row(1, "100"), row(1, "100") + row(2, "200"), row(1, "111") + row(2, "200") + row(3, "300"), row(1, "111") + row(2, "222") + row(3, "333") + row(4, "400")},
			restart:  []bool{false, false, false, false}},
		meterPlan{class: "duplicate-in-one-tick", origin: 0, initial: hdr(0),
			contents: []string{"timestamp,energy (mWh)\n", "timestamp,energy (mWh)\n" + row(5, "500") + row(5, "501") + row(6, "600") + row(5, "500")},
			restart:  []bool{false, false}},
		meterPlan{class: "restart-then-rewrite", origin: 3, initial: hdr(3, 0, 77000),
			contents: []string{row(3, "30") + row(4, "40"), row(3, "30") + row(4, "40") + row(5, "50"), row(3, "31") + row(4, "40") + row(5, "51") + row(6, "60"), row(3, "31") + row(4, "41") + row(6, "61") + row(7, "70")},
			restart:  []bool{false, false, true, true}},
		meterPlan{class: "unsent-before-restart", origin: 0, initial: hdr(0),
			contents: []string{row(1, "100"), row(1, "100") + row(2, "200") + row(9, "900"), row(1, "100") + row(2, "201") + row(3, "300") + row(10, "1000")},
			restart:  []bool{false, true, false}},
		meterPlan{class: "before-origin", origin: 10, initial: hdr(10),
			contents: []string{row(8, "80") + row(9, "90") + row(10, "100"), row(8, "81") + row(11, "110")},
			restart:  []bool{false, false}},
		// K2: readings outside 32 signed bits
		meterPlan{class: "k2-same-tick", origin: 0, initial: hdr(0),
			contents: []string{"timestamp,energy (mWh)\n", row(2, "5000") + row(2, "4294972296") + row(3, "700")},
			restart:  []bool{false, false}},
		meterPlan{class: "k2-resend", origin: 0, initial: hdr(0), resend: true,
			contents: []string{"timestamp,energy (mWh)\n", row(1, "4294967301") + row(2, "777") + row(3, "-4000") + row(4, "12"), row(1, "4294967301") + row(2, "777") + row(3, "-4000") + row(4, "12")},
			restart:  []bool{false, false, true}},
		meterPlan{class: "resend-identical", origin: 0, initial: hdr(0), resend: true,
			contents: []string{"timestamp,energy (mWh)\n", row(1, "2147483647") + row(2, "777") + row(3, "-2147483648") + row(5, "abc"), row(1, "2147483647") + row(2, "778") + row(3, "-2147483648") + row(5, "abc")},
			restart:  []bool{false, false, true}},
	)
	for i := 0; i < nGen; i++ {
		plans = append(plans, genMeterPlan(rng.Fork(), G, "generated"))
	}
	// run (several clients at a time; each has its own directory, sink and identity)
	out := make([]*meterCase, len(plans))
	sem := make(chan struct{}, par)
	var wg sync.WaitGroup
	var mu sync.Mutex
	retried := 0
	for i := range plans {
		wg.Add(1)
		go func(i int) {
			defer wg.Done()
			sem <- struct{}{}
			defer func() { <-sem }()
			out[i] = runMeterCase(i, plans[i])
			if out[i].discarded && out[i].err == nil { // once more, a loaded machine is not a finding
				out[i] = runMeterCase(i+1000, plans[i])
				mu.Lock()
				retried++
				mu.Unlock()
			}
		}(i)
	}
	wg.Wait()
	res.Discarded += retried
	var items []string
	for i, mc := range out {
		if mc.err != nil {
			return nil, fmt.Errorf("case %d (%s): %v", i, mc.Class, mc.err)
		}
		if mc.discarded {
			res.Discarded++
			continue
		}
		res.Count(plans[i].class)
		for _, f := range mc.failures {
			res.Fail(f.What, f.Key, f.Replay)
		}
		var evS, outS []string
		canon := mc.InitHex + "|" + mc.CT
		emitted, refused := 0, false
		for _, ev := range mc.Events {
			var rs []string
			for _, r := range ev.Recs {
				rs = append(rs, core.Pair(core.ZU(r[0]), core.ZU(r[1])))
			}
			k := map[string]string{"tick": "0", "restart": "1", "resend": "2", "tick+resend": "3"}[ev.Kind]
			if ev.Kind == "tick+resend" {
				k = fmt.Sprint(2 + ev.Rounds) // 3 = one scan, 4 = two scans ...
			}
			res.Count("event." + ev.Kind)
			evS = append(evS, core.Tuple(k, core.List(rs), core.ZU(uint64(ev.From)), core.ZU(uint64(ev.N))))
			var os_ []string
			for _, o := range ev.Out {
				os_ = append(os_, core.Pair(core.ZU(o[0]), core.ZU(o[1])))
			}
			outS = append(outS, core.List(os_))
			emitted += len(ev.Out)
			canon += fmt.Sprintf("%s%v;", k, ev.Recs)
			sent := map[uint64]bool{}
			for _, o := range ev.Out {
				sent[o[0]] = true
			}
			for _, r := range ev.Recs {
				if ev.Kind == "tick" && !sent[r[0]] {
					refused = true
				}
			}
		}
		if emitted > 0 {
			res.Count("emitting-case")
		}
		res.Case(mc, canon, emitted > 0 && refused)
		items = append(items, core.Tuple(core.Hex(mc.Initial), core.List(evS), core.List(outS), core.Hex(mc.Final)))
	}
	if res.Discarded > len(plans)/2 {
		res.Fail("the client stopped reading its energy file in most runs", "client-stalled", map[string]interface{}{"discarded": res.Discarded})
	}
	if err := res.CasesFile(outDir, "cases_meter", "From Coq Require Import ZArith List.\nFrom GCA Require Import RunLib ClientStoreRun.",
		"meter_case", items, "meter_mismatches"); err != nil {
		return nil, err
	}
	res.Required = append(res.Required, "rewrite-after-send", "duplicate-in-one-tick", "restart-then-rewrite", "unsent-before-restart", "before-origin",
		"k2-same-tick", "k2-resend", "resend-identical", "generated", "event.tick", "event.restart", "event.tick+resend", "emitting-case")
	res.Extra["genesis"] = G
	res.Rule = "real client on a prepared directory, datagrams captured at a UDP sink; edit scripts of 5..9 file contents (append, rewrite, duplicate with another value, reorder, delete, gap, rows before the history origin; readings plain/decimal/negative/sentinel/unparseable; optional calibration file and pre-filled history), restarts with probability 0.28 per content; two scenarios with a real server answering the sync (retransmission); non-trivial = at least one datagram emitted and at least one record not sent; distinct by (initial history, calibration, record lists)"
	return res, nil
}
