(* C20 -- Timeslot arithmetic is exact; production constants keep the window safe.
   Only statements, each closed by [exact]; proofs live in Timeslot_lemmas.v. *)
From Coq Require Import ZArith List String Bool Lia.
From GCA Require Import Wrap Timeslot Timeslot_lemmas ConstsUse.
From GCAgen Require ConstsProd.
Import ListNotations.
Open Scope Z_scope.

Definition G := ConstsProd.GenesisTime.

(* --- the production genesis constant (regenerated from the source) -------- *)
Theorem c20_genesis :
  G = unix_of_utc 2023 11 19 0 0 0 /\ weekday_of_unix G = 0 /\ 0 <= G < 2^62.
Proof. vm_compute. repeat split; congruence. Qed.

Lemma G_range : 0 <= G < 2^62. Proof. exact (proj2 (proj2 c20_genesis)). Qed.

Theorem c20_roundtrip t : G <= t < G + 2^32 ->
  exists s, unix_to_timeslot G t = Some s /\
            timeslot_to_unix G s = t - (t - G) mod 300 /\
            timeslot_to_unix G s <= t < timeslot_to_unix G s + 300.
Proof. exact (roundtrip G t G_range). Qed.

Theorem c20_monotone t1 t2 s1 s2 : G <= t1 -> t1 <= t2 -> t2 < G + 2^32 ->
  unix_to_timeslot G t1 = Some s1 -> unix_to_timeslot G t2 = Some s2 -> s1 <= s2.
Proof. exact (monotone G t1 t2 s1 s2). Qed.

Theorem c20_refuse_before_genesis t : t < G -> unix_to_timeslot G t = None.
Proof. exact (u2t_before G t). Qed.

Theorem c20_slot_roundtrip s : 0 <= s <= max_slot ->
  unix_to_timeslot G (timeslot_to_unix G s) = Some s.
Proof. exact (slot_roundtrip G s G_range). Qed.

Theorem c20_current_follows_clock now : G <= now < G + 2^32 ->
  current_timeslot G now = unix_to_timeslot G now.
Proof. exact (current_follows_clock G now). Qed.

(* --- acceptance comparison: no wrap-around for any 32-bit pair ----------- *)
Theorem c20_compare_exact half ts now : 0 <= half < 2^32 -> is_u32 ts -> is_u32 now ->
  accept_go half ts now = accept_math half ts now.
Proof. exact (accept_exact half ts now). Qed.

(* --- production cadence, on the regenerated constants --------------------- *)
Definition prod_T  : option Z := strict_bound (lit_of [">"; ">="]%string ConstsProd.lits_launchMigrateReports).
Definition prod_H  : Z := fold_right Z.max 0 (all_lits ["+"; "-"]%string ConstsProd.lits_managedHandleEquipmentReport).
Definition prod_W  : Z := fold_right Z.max 0 (all_lits ["+"]%string ConstsProd.lits_integrateReport).
Definition prod_Wk : Z := fold_right Z.max 0 (all_lits ["+="]%string ConstsProd.lits_migrateReports).
(* check period in slots, plus one slot because a sleep of k slots of real time
   started inside a slot can observe k+1 slot boundaries *)
Definition prod_P  : Z := ceil_div ConstsProd.server_ReportMigrationFrequencyMs 300000 + 1.
Definition prod_cfg (T D : Z) : sched_cfg :=
  {| cT := T; cP := prod_P; cD := D; cH := prod_H; cW := prod_W; cWk := prod_Wk |}.
(* the longest a triggered rotation may take (it fetches data over the network first) *)
Definition prod_slack (T : Z) : Z := prod_W - T - prod_P - prod_H - 1.

Theorem c20_extraction_complete :
  ConstsProd.extraction_failed = [] /\ exists T, prod_T = Some T.
Proof. split; [reflexivity | vm_compute; eauto]. Qed.

Theorem c20_cadence_inequality T D : prod_T = Some T -> 0 <= D <= prod_slack T ->
  cfg_ok (prod_cfg T D) = true /\ T + prod_P + prod_H < prod_W /\ 0 < prod_slack T.
Proof.
  intros HT HD. vm_compute in HT. injection HT as <-.
  unfold prod_slack in *. unfold cfg_ok, prod_cfg; cbn [cT cP cD cH cW cWk].
  change prod_P with 13 in *. change prod_H with 432 in *.
  change prod_W with 4032 in *. change prod_Wk with 2016 in *.
  repeat split; lia.
Qed.

Theorem c20_window_safe T D s es s' ts : prod_T = Some T -> 0 <= D <= prod_slack T ->
  SInv (prod_cfg T D) s -> sched_run (prod_cfg T D) s es = Some s' ->
  acceptable (prod_cfg T D) s' ts -> ts - s_off s' < prod_W.
Proof.
  intros HT HD. exact (window_safe (prod_cfg T D) (proj1 (c20_cadence_inequality T D HT HD)) s es s' ts).
Qed.

Theorem c20_rotation_keeps_acceptable T D s s' ts : prod_T = Some T -> 0 <= D <= prod_slack T ->
  SInv (prod_cfg T D) s -> sched_step (prod_cfg T D) s Rotate = Some s' ->
  acceptable (prod_cfg T D) s ts -> s_off s' <= ts.
Proof.
  intros HT HD. exact (rotation_keeps_acceptable (prod_cfg T D) (proj1 (c20_cadence_inequality T D HT HD)) s s' ts).
Qed.

(* non-vacuity: the invariant's premises are met by a freshly started server *)
Example c20_nonvacuous :
  SInv (prod_cfg 3200 0) {| s_now := 100; s_off := 0; s_ph := Idle 105 |}.
Proof. unfold SInv; simpl. change prod_P with 13. lia. Qed.

Print Assumptions c20_genesis.
Print Assumptions c20_roundtrip.
Print Assumptions c20_monotone.
Print Assumptions c20_refuse_before_genesis.
Print Assumptions c20_slot_roundtrip.
Print Assumptions c20_current_follows_clock.
Print Assumptions c20_compare_exact.
Print Assumptions c20_extraction_complete.
Print Assumptions c20_cadence_inequality.
Print Assumptions c20_window_safe.
Print Assumptions c20_rotation_keeps_acceptable.
