(* C03: weekly statistics equal the accepted reports and never change once archived. *)
From Coq Require Import ZArith List Bool Lia.
From GCA Require Import Wrap Bytes Bytes_lemmas Codec Amap Amap_lemmas Timeslot Server ServerInv ServerInv_lemmas ServerInv2_lemmas ServerReach_lemmas ServerAuth_lemmas.
Import ListNotations.
Open Scope Z_scope.
Set Default Proof Using "Type".
Notation length := List.length.

Lemma zget_half_power x i w : 0 <= i < week_len ->
  zget i (half_power x w) = option_map r_p (zget (i + x) w).
Proof.
  intros R. unfold half_power, week_len in *. induction w as [|[k v] w IH]; cbn [filter map zget fst snd]; [reflexivity|].
  destruct ((x <=? k) && (k <? x + 2016)) eqn:F; cbn [map zget fst snd].
  - apply andb_prop in F. destruct F as [F1 F2]. apply Z.leb_le in F1. apply Z.ltb_lt in F2.
    destruct (Z.eqb_spec i (k - x)) as [E|E].
    + subst i. replace (k - x + x) with k by lia. rewrite Z.eqb_refl. reflexivity.
    + destruct (Z.eqb_spec (i + x) k); [lia | exact IH].
  - destruct (Z.eqb_spec (i + x) k) as [E|E]; [|exact IH].
    exfalso. subst k. apply andb_false_iff in F. destruct F as [F|F]; [apply Z.leb_gt in F | apply Z.ltb_ge in F]; lia.
Qed.

Lemma zget_half_rates x i w : 0 <= i < week_len ->
  zget i (half_rates x w) = zget (i + x) w.
Proof.
  intros R. unfold half_rates, week_len in *. induction w as [|[k v] w IH]; cbn [filter map zget fst snd]; [reflexivity|].
  destruct ((x <=? k) && (k <? x + 2016)) eqn:F; cbn [map zget fst snd].
  - apply andb_prop in F. destruct F as [F1 F2]. apply Z.leb_le in F1. apply Z.ltb_lt in F2.
    destruct (Z.eqb_spec i (k - x)) as [E|E].
    + subst i. replace (k - x + x) with k by lia. rewrite Z.eqb_refl. reflexivity.
    + destruct (Z.eqb_spec (i + x) k); [lia | exact IH].
  - destruct (Z.eqb_spec (i + x) k) as [E|E]; [|exact IH].
    exfalso. subst k. apply andb_false_iff in F. destruct F as [F|F]; [apply Z.leb_gt in F | apply Z.ltb_ge in F]; lia.
Qed.

Section StatsA.
  Variable sign : bytes -> bytes -> bytes.
  Variable stats_sb : list devstat -> Z -> bytes.

  (* what a device contributes to the record built for the half starting at x *)
  Definition dev_record (m0 : mem) (x id : Z) (w : window) (rt : rates) : devstat :=
    {| ds_key := match zget id (equipment m0) with Some a => pad 32 (a_key a) | None => zeros 32 end;
       ds_power := half_power x w; ds_impact := half_rates x rt |}.

  Lemma build_devs_spec m0 x l ds : build_devs m0 x l = Some ds ->
    Forall2 (fun p d => exists rt, zget (fst p) (impact m0) = Some rt /\ d = dev_record m0 x (fst p) (snd p) rt) l ds.
  Proof.
    revert ds. induction l as [|[id w] l IH]; intros ds H; cbn [build_devs] in H.
    - inversion H. constructor.
    - destruct (zget id (impact m0)) as [rt|] eqn:Q; [|discriminate].
      destruct (build_devs m0 x l) as [ds'|]; [|discriminate]. inversion H; subst.
      constructor; [exists rt; split; [exact Q | reflexivity] | apply IH; reflexivity].
  Qed.

  (* a built record: labelled with the requested week (the first or the second live week), signed
     by the server key over the signing bytes of exactly these devices, one entry per device
     currently in the window table, carrying that device's slots of the requested half *)
  Theorem build_stats_exact m0 tso s : MemInv m0 -> build_stats sign stats_sb m0 tso = BOk s ->
    st_tso s = tso /\ (tso = offset m0 \/ tso = offset m0 + week_len) /\
    st_sig s = sign (stats_sb (st_devs s) tso) (snd (skeys m0)) /\
    let x := if tso =? offset m0 + week_len then week_len else 0 in
    Forall2 (fun p d => exists rt, zget (fst p) (impact m0) = Some rt /\ d = dev_record m0 x (fst p) (snd p) rt)
            (zsort (reports m0)) (st_devs s).
  Proof.
    intros I. pose proof (i_off_lo _ I) as Hlo. pose proof (i_off_hi _ I) as Hhi. pose proof (i_off_hist _ I) as Hoh.
    unfold build_stats. rewrite (u32_id (offset m0 + week_len)) by (unfold is_u32, week_len; lia).
    destruct (Z.eqb_spec (tso mod week_len) 0) as [M|M]; cbn [negb]; [|discriminate].
    destruct (Z.ltb_spec tso (offset m0)) as [L|L]; [discriminate|].
    destruct (Z.ltb_spec (offset m0 + week_len) tso) as [F|F]; [discriminate|].
    destruct (build_devs m0 _ (zsort (reports m0))) as [ds|] eqn:B; [|discriminate].
    intros H; inversion H; subst s; clear H. cbn [st_tso st_sig st_devs].
    split; [reflexivity|]. split.
    - unfold week_len in *. set (n := Z.of_nat (length (history m0))) in *.
      assert (E : tso = 2016 * (tso / 2016)) by (pose proof (Z.div_mod tso 2016 ltac:(lia)); lia).
      assert (tso / 2016 = n \/ tso / 2016 = n + 1) by lia. lia.
    - split; [reflexivity|]. apply build_devs_spec. exact B.
  Qed.

  (* misaligned and future weeks are refused; everything else is served without touching the state *)
  Theorem stats_query_refusals st tso : MemInv (mm st) -> 0 <= tso ->
    (tso mod week_len <> 0 -> stats_query sign stats_sb st tso = (st, Refused)) /\
    (offset (mm st) + week_len < tso -> stats_query sign stats_sb st tso = (st, Refused)) /\
    fst (stats_query sign stats_sb st tso) = st.
  Proof.
    intros I Ht. pose proof (i_off_lo _ I) as Hlo. pose proof (i_off_hi _ I) as Hhi.
    split; [|split].
    - intros M. unfold stats_query. destruct (Z.eqb_spec (tso mod week_len) 0); [contradiction | reflexivity].
    - intros F. unfold stats_query. destruct (negb (tso mod week_len =? 0)); [reflexivity|].
      destruct (Z.ltb_spec tso (offset (mm st))); [unfold week_len in *; lia|].
      unfold build_stats. destruct (negb (tso mod week_len =? 0)); [reflexivity|].
      destruct (Z.ltb_spec tso (offset (mm st))); [reflexivity|].
      rewrite (u32_id (offset (mm st) + week_len)) by (unfold is_u32, week_len; lia).
      destruct (Z.ltb_spec (offset (mm st) + week_len) tso); [reflexivity | lia].
    - apply (stats_query_inv sign stats_sb st tso I Ht).
  Qed.

  (* an archived week is served from the archive *)
  Theorem stats_query_archived st k s : MemInv (mm st) ->
    nth_error (history (mm st)) k = Some s ->
    stats_query sign stats_sb st (week_len * Z.of_nat k) = (st, StatsOut s).
  Proof.
    intros I N. assert (K : (k < length (history (mm st)))%nat) by (apply nth_error_Some; congruence).
    unfold stats_query. replace (week_len * Z.of_nat k mod week_len) with 0
      by (rewrite Z.mul_comm, Z.mod_mul; [reflexivity | unfold week_len; lia]).
    cbn [Z.eqb negb]. rewrite (i_off_hist _ I).
    destruct (Z.ltb_spec (week_len * Z.of_nat k) (week_len * Z.of_nat (length (history (mm st))))) as [L|L];
      [|unfold week_len in *; lia].
    replace (week_len * Z.of_nat k / week_len) with (Z.of_nat k)
      by (rewrite Z.mul_comm, Z.div_mul; [reflexivity | unfold week_len; lia]).
    rewrite Nat2Z.id, N. reflexivity.
  Qed.

  (* ---------------------------------------------------------- rotation *)
  Theorem rotation_exact st : MemInv (mm st) -> offset (mm st) + week_len <= 2^32 - 8192 ->
    exists s, rotate sign stats_sb st =
      ({| mm := {| equipment := equipment (mm st); index := index (mm st); bans := bans (mm st);
                   reports := map (fun p => (fst p, shift_window (snd p))) (reports (mm st));
                   impact := map (fun p => (fst p, shift_window (snd p))) (impact (mm st));
                   offset := offset (mm st) + week_len; history := history (mm st) ++ [s];
                   gca := gca (mm st); gca_avail := gca_avail (mm st); tempkey := tempkey (mm st);
                   skeys := skeys (mm st) |};
          dd := disk_append_stats (dd st) s |}, Quiet) /\
      build_stats sign stats_sb (mm st) (offset (mm st)) = BOk s /\
      (* archived slot i = live slot i of the first half; live slot j afterwards = old slot j+2016 *)
      (forall id w i, zget id (reports (mm st)) = Some w -> 0 <= i < week_len ->
         zget i (half_power 0 w) = option_map r_p (zget i w)) /\
      (forall id w j, zget id (reports (mm st)) = Some w -> 0 <= j ->
         zget j (shift_window w) = zget (j + week_len) w) /\
      (forall id rt i, zget id (impact (mm st)) = Some rt -> 0 <= i < week_len ->
         zget i (half_rates 0 rt) = zget i rt) /\
      (forall id rt j, zget id (impact (mm st)) = Some rt -> 0 <= j ->
         zget j (shift_window rt) = zget (j + week_len) rt).
  Proof.
    intros I Hb. destruct (build_stats_at_offset sign stats_sb (mm st) I) as (s & E & Ts).
    exists s. unfold rotate. rewrite E.
    rewrite (u32_id (offset (mm st) + week_len)) by (pose proof (i_off_lo _ I); unfold is_u32, week_len in *; lia).
    split; [reflexivity|]. split; [reflexivity|].
    repeat split.
    - intros id w i _ R. rewrite zget_half_power by exact R. rewrite Z.add_0_r. reflexivity.
    - intros id w j _ R. rewrite zget_shift. destruct (Z.leb_spec 0 j); [reflexivity | lia].
    - intros id rt i _ R. rewrite zget_half_rates by exact R. rewrite Z.add_0_r. reflexivity.
    - intros id rt j _ R. rewrite zget_shift. destruct (Z.leb_spec 0 j); [reflexivity | lia].
  Qed.

  (* weeks are archived contiguously from week 0 *)
  Theorem contiguous m0 : MemInv m0 ->
    offset m0 = week_len * Z.of_nat (length (history m0)) /\
    forall k s, nth_error (history m0) k = Some s -> st_tso s = week_len * Z.of_nat k.
  Proof. intros I. split; [apply (i_off_hist _ I) | apply (i_hist_tso _ I)]. Qed.
End StatsA.

Section StatsB.
  Variable verify : bytes -> bytes -> bytes -> bool.
  Variable sign : bytes -> bytes -> bytes.
  Variable stats_sb : list devstat -> Z -> bytes.
  Local Notation step := (step verify sign stats_sb).
  Local Notation run := (run verify sign stats_sb).

  (* ---------------------------------------------------------- the archive only grows *)
  Definition extends (st st' : state) : Prop := exists suffix, history (mm st') = history (mm st) ++ suffix.

  Lemma integrate_history st r : history (mm (fst (integrate st r))) = history (mm st).
  Proof.
    unfold integrate.
    destruct (r_ts r <? offset (mm st)); [reflexivity|].
    destruct (u32 (offset (mm st) + window_len) <=? r_ts r); [reflexivity|].
    destruct (zget (r_id r) (reports (mm st))); [|reflexivity].
    destruct (window_len <=? u32 (r_ts r - offset (mm st))); [reflexivity|].
    destruct (r_p (getslot _ _) =? 1); [reflexivity|].
    destruct (report_eqb _ r); reflexivity.
  Qed.

  Lemma step_extends st o : (forall f n, o <> OpRestart f n) -> extends st (fst (step st o)).
  Proof.
    intros NR. unfold extends. destruct o as [now d|k s|a|tso|now|id ts v|fresh now]; cbn [Server.step].
    - exists []. rewrite app_nil_r. unfold udp_receive. destruct (Nat.ltb (length d) 80); [reflexivity|].
      unfold handle_report. destruct (parse_report verify st (firstn 80 d)) as [r|]; [|reflexivity].
      destruct (negb _); [reflexivity|]. destruct (_ || _); [reflexivity|]. apply integrate_history.
    - exists []. rewrite app_nil_r. unfold register. destruct (gca_avail (mm st)); [reflexivity|].
      destruct (negb _); reflexivity.
    - exists []. rewrite app_nil_r. unfold authorize. destruct (negb (gca_avail _)); [reflexivity|].
      destruct (negb (verify _ _ _)); [reflexivity|]. unfold save_equipment.
      destruct (zin _ _); [reflexivity|]. destruct (zget _ _) as [cur|].
      + destruct (auth_go_eq cur a); [reflexivity|]. destruct (d_auths (dd st)); reflexivity.
      + destruct (d_auths (dd st)); reflexivity.
    - exists []. rewrite app_nil_r. unfold stats_query. destruct (negb _); [reflexivity|].
      destruct (tso <? _); [destruct (nth_error _ _); reflexivity|]. destruct (build_stats _ _ _ _); reflexivity.
    - unfold rotate_tick. destruct (_ <? _); [|exists []; rewrite app_nil_r; reflexivity].
      unfold rotate. destruct (build_stats sign stats_sb (mm st) (offset (mm st))) as [s| |];
        [exists [s]; reflexivity | exists []; rewrite app_nil_r; reflexivity | exists []; rewrite app_nil_r; reflexivity].
    - exists []. rewrite app_nil_r. unfold impact_write. destruct (_ && _); [|reflexivity].
      destruct (zget id _); reflexivity.
    - exfalso. eapply NR; reflexivity.
  Qed.

  (* once archived, identical forever: whatever requests, reports, bans and rotations follow *)
  Theorem archive_immutable ops : forall st k s, no_restart ops ->
    nth_error (history (mm st)) k = Some s -> nth_error (history (mm (run st ops))) k = Some s.
  Proof.
    induction ops as [|o ops IH]; intros st k s NR N; [exact N|].
    inversion NR as [|? ? No NR']; subst. rewrite run_cons. apply IH; [exact NR'|].
    destruct (step_extends st o No) as [suf E]. rewrite E.
    rewrite nth_error_app1; [exact N | apply nth_error_Some; congruence].
  Qed.

End StatsB.
