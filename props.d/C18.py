# C18 -- see DESIGN.md section 5
PROP = {
    "props_v": "Props/C18.v",
    "extra_v": ["EventLogRun.v"],
    "suites": [("prod", "eventlog")],
    "run_vo": "EventLogRun.vo",
    "assumptions": [
        "time: the logger reads time.Now() itself; the harness places every call in the first half of its own cell of a time grid (tick >= 10 ms, expiry = k + 1/2 ticks) and discards and repeats histories whose before/after stamps leave the cell, so that every comparison with the expiry is decided by cell numbers; the model runs on integer timestamps and its theorems hold for all integers",
        "ties: lines whose last updates are equal are ordered by Go's map iteration / unstable sort; the model takes the order as an input of the operation (any permutation) and the theorems hold for every choice; harness histories never contain ties between different lines",
        "integers: Go's int arithmetic (2*len(key), sizeRequired+logSizeBytes) is modelled in Z; it cannot overflow int64 for strings that fit in memory when logMaxBytes <= 2^62 (client.NewClient rejects logMaxBytes >= 1e8)",
        "configuration: 'no call panics' is proved for logMaxLineBytes >= 0 (a negative limit makes key[:limit] panic on every Printf -- proved as c18_negative_line_limit_panics; client.NewClient rejects such a configuration); sync.Mutex gives mutual exclusion (operations are atomic in the model)",
    ],
}
TEXT = {
    "text": "Coq theorems over all operation lists (Printf/ExpireLogs/DumpLogEntries with arbitrary integer timestamps, arbitrary tie-breaking, every configuration) by induction with an invariant: exact size accounting, bound, no reachable panic, truncation, newest line kept, reuse of space freed by expiry, eviction of a minimal prefix of the least-recently-updated order, sorted dump; the executable model is compared with glow.EventLogger on time-grid histories (vm_compute), with a property oracle on the implementation's trace alone. Added after seeded-change rounds: one line repeated 260 times, then another, then the first again (dump order and eviction follow the last update).",
    "note": "Trusted: Coq kernel + vm_compute, the harness (time grid, oracle), reading of event_log.go into EventLog.v. Mutual exclusion is sync.Mutex (not modelled); timestamps are integers (time.Time monotonic readings).",
    "technique": "Coq proof (induction over operation lists, invariant) + differential correspondence on a time grid (vm_compute)",
}
