(* Machine-integer conventions shared by all models: Go's uintN / intN
   conversions written out explicitly over Z. *)
From Coq Require Import ZArith Lia.
Open Scope Z_scope.

Definition u16 (z : Z) : Z := z mod 2^16.
Definition u32 (z : Z) : Z := z mod 2^32.
Definition u64 (z : Z) : Z := z mod 2^64.
(* two's complement reinterpretation: int64(x) for an arbitrary integer x *)
Definition i64 (z : Z) : Z := (z + 2^63) mod 2^64 - 2^63.
Definition i32 (z : Z) : Z := (z + 2^31) mod 2^32 - 2^31.

Definition is_u32 (z : Z) : Prop := 0 <= z < 2^32.
Definition is_u64 (z : Z) : Prop := 0 <= z < 2^64.
Definition is_i64 (z : Z) : Prop := - 2^63 <= z < 2^63.

Lemma u32_id z : is_u32 z -> u32 z = z.
Proof. unfold is_u32, u32; intros; apply Z.mod_small; lia. Qed.
Lemma u64_id z : is_u64 z -> u64 z = z.
Proof. unfold is_u64, u64; intros; apply Z.mod_small; lia. Qed.
Lemma i64_id z : is_i64 z -> i64 z = z.
Proof. unfold is_i64, i64; intros. rewrite Z.mod_small; lia. Qed.
Lemma u32_range z : is_u32 (u32 z).
Proof. unfold is_u32, u32. apply Z.mod_pos_bound. lia. Qed.
Lemma u64_range z : is_u64 (u64 z).
Proof. unfold is_u64, u64. apply Z.mod_pos_bound. lia. Qed.
Lemma i64_range z : is_i64 (i64 z).
Proof. unfold is_i64, i64. pose proof (Z.mod_pos_bound (z + 2^63) (2^64)). lia. Qed.
