# C11 -- see DESIGN.md section 5
PROP = {
    "props_v": "Props/C11.v",
    "extra_v": ["ClientSyncRun.v"],
    "suites": [("test", "rogue")],
    "run_vo": "ClientSyncRun.vo",
    "assumptions": [
        "signature verification is an arbitrary function in the theorems; in the correspondence run it is membership in the table of signatures the harness created with glow.Sign (a rogue authorized server = the harness holding that server's private key)",
        "one sync round at a time: the round captures the GCA key when it starts and applies the accepted reply before the next one starts (the trigger leaves at least 4 ticks between launches); a peer that keeps the connection open and stays silent blocks that round's goroutine only (outcome OHang: no lock is held, the loop keeps running) -- the client sets no read deadline",
        "file writes succeed (os.WriteFile failing makes the client panic by design); the re-send scan after a successful round (C08) is outside this model",
        "lock balance is proved on the model of threadedSyncWithServer and tied to the code by the try-lock probe after every round of the suite; the planned syntactic skeleton check of every locking function (T4) is not part of this work package",
        "c11_keeps_reporting is about the tick counter of threadedSendReports as written (60 / %4==3); the constants are tied to the running code only behaviourally (suite part D: a real client keeps reporting and retries the sync after failed rounds)",
    ],
}
TEXT = {
    "text": "Coq model of the client's receive path (client_recv/parse_reply: every slice expression with an explicit Panic outcome, uint16 wrap-around of respLen-72 etc.) and of threadedSyncWithServer (sync_round: five attempts, failed set, shuffles and per-attempt outcomes as inputs, explicit lock flag, apply_sync, persistence) in two revisions: v_prefix (code as found) and v_fixed (after the two repairs). Theorems, for ALL byte strings / ALL outcome functions / ALL server maps and an arbitrary verify: c11_parse_total (no panic, no fuel exhaustion), c11_lock_released, c11_round_never_panics, c11_never_selects_banned, c11_ban_monotone and c11_ban_survives_restart (histories of rounds and restarts; persisted map round trip proved for the model's codec), c11_loop_not_wedged + c11_keeps_reporting (a sync is launched within 60 ticks from any counter value and any status sequence); c11_prefix_parse_panics and c11_prefix_lock_held are the two defects in the model of the unrepaired code. Both defects were first reproduced against the real code by ./check (replays in corpus/C11), then repaired in /repo (fix: commits 7d1d5a7, d1fc90f). Tie: suite rogue -- length-prefix sweep 0..65535, contents of 64..1100 bytes correctly signed by the contacted server, genuine replies mutated and re-signed, client histories over 1..6 scripted TCP servers (refuse, reset, short, bad signature, stale, wrong device, bad inner signatures, truncated list, success, delayed), all-banned / all-failed / single-down configurations, restarts, a try-lock probe and the three files after every round, and a real NewClient whose only server is down (datagrams must keep arriving at a UDP sink, sync must be retried).",
    "note": "Trusted: Coq kernel + vm_compute, the harness (scripted peers, oracle, signature table), secp256k1, the Go runtime's panic recovery used as the panic witness. The selected server of each attempt is observed through a one-line verif hook (no-op in normal builds).",
    "technique": "Coq proof (all byte strings, all outcome vectors, arbitrary verify) + differential correspondence (vm_compute) + fault injection with scripted TCP peers against the real client",
}
