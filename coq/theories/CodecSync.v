(* Encodings used by the device <-> server synchronisation protocol, as written in
     server/authorized_servers.go      (AuthorizedServer.Serialize / SigningBytes)
     server/api_equipment_migrate.go   (EquipmentMigration.Serialize / SigningBytes)
     client/gcaserver.go               (SerializeGCAServerMap / UntrustedDeserializeGCAServerMap)
   Definitions only (proofs: ClientSync_lemmas.v, ServerList_lemmas.v).
   Keys and signatures are byte strings; fixed-size Go arrays ([32]byte, [64]byte) are
   written with [pad], which is the identity on strings of the right length. *)
From Coq Require Import ZArith List Bool String.
From Coq.Strings Require Import Byte.
From GCA Require Import Bytes.
Import ListNotations.
Open Scope Z_scope.
Notation length := List.length.

Definition blank_key : bytes := zeros 32.
Definition is_blank (k : bytes) : bool := bytes_eqb k blank_key.
Definition bool_byte (b : bool) : byte := if b then x01 else x00.

(* ---- server.AuthorizedServer ------------------------------------------- *)
Record aserver := { as_key : bytes; as_banned : bool; as_loc : bytes;
                    as_http : Z; as_tcp : Z; as_udp : Z; as_sig : bytes }.

(* data[33] = byte(len(Location)) : truncated to 8 bits for long locations *)
Definition as_body (s : aserver) : bytes :=
  pad 32 (as_key s) ++ [bool_byte (as_banned s)] ++ [z2b (Z.of_nat (length (as_loc s)))] ++
  as_loc s ++ le_enc 2 (as_http s) ++ le_enc 2 (as_tcp s) ++ le_enc 2 (as_udp s).
Definition as_serialize (s : aserver) : bytes := as_body s ++ pad 64 (as_sig s).
Definition as_signing_bytes (s : aserver) : bytes := ascii_bytes "AuthorizedServer" ++ as_body s.

Definition aserver_wf (s : aserver) : Prop :=
  length (as_key s) = 32%nat /\ (length (as_loc s) <= 255)%nat /\
  0 <= as_http s < 2^16 /\ 0 <= as_tcp s < 2^16 /\ 0 <= as_udp s < 2^16 /\
  length (as_sig s) = 64%nat.

Definition aserver_eqb (a b : aserver) : bool :=
  bytes_eqb (as_key a) (as_key b) && Bool.eqb (as_banned a) (as_banned b) &&
  bytes_eqb (as_loc a) (as_loc b) && (as_http a =? as_http b) && (as_tcp a =? as_tcp b) &&
  (as_udp a =? as_udp b) && bytes_eqb (as_sig a) (as_sig b).

(* ---- server.EquipmentMigration ------------------------------------------ *)
Record migration := { mg_equipment : bytes; mg_newgca : bytes; mg_newid : Z;
                      mg_servers : list aserver; mg_sig : bytes }.

Definition mg_tail (m : migration) : bytes :=        (* Serialize()[32:] without the signature *)
  pad 32 (mg_newgca m) ++ le_enc 4 (mg_newid m) ++ List.concat (map as_serialize (mg_servers m)).
Definition mg_body (m : migration) : bytes := pad 32 (mg_equipment m) ++ mg_tail m.
Definition mg_serialize (m : migration) : bytes := mg_body m ++ pad 64 (mg_sig m).
Definition mg_signing_bytes (m : migration) : bytes := ascii_bytes "EquipmentMigration" ++ mg_body m.

Definition migration_wf (m : migration) : Prop :=
  length (mg_equipment m) = 32%nat /\ length (mg_newgca m) = 32%nat /\ 0 <= mg_newid m < 2^32 /\
  Forall aserver_wf (mg_servers m) /\ length (mg_sig m) = 64%nat.

(* ---- client.GCAServer and the persisted server map ----------------------- *)
Record gserver := { g_banned : bool; g_loc : bytes; g_http : Z; g_tcp : Z; g_udp : Z }.
Definition gserver_of (s : aserver) : gserver :=
  {| g_banned := as_banned s; g_loc := as_loc s; g_http := as_http s; g_tcp := as_tcp s; g_udp := as_udp s |}.
Definition gserver_eqb (a b : gserver) : bool :=
  Bool.eqb (g_banned a) (g_banned b) && bytes_eqb (g_loc a) (g_loc b) &&
  (g_http a =? g_http b) && (g_tcp a =? g_tcp b) && (g_udp a =? g_udp b).

(* Go map[glow.PublicKey]GCAServer: association list with unique keys; [smap_set]
   overwrites in place or appends, so that a list built by [smap_set] has no duplicate key *)
Definition smap := list (bytes * gserver).
Fixpoint smap_get (k : bytes) (m : smap) : option gserver :=
  match m with
  | [] => None
  | (k', v) :: m' => if bytes_eqb k k' then Some v else smap_get k m'
  end.
Fixpoint smap_set (k : bytes) (v : gserver) (m : smap) : smap :=
  match m with
  | [] => [(k, v)]
  | (k', v') :: m' => if bytes_eqb k k' then (k', v) :: m' else (k', v') :: smap_set k v m'
  end.
Definition smap_keys (m : smap) : list bytes := map fst m.

Definition gserver_wf (g : gserver) : Prop :=
  Z.of_nat (length (g_loc g)) <= 65535 /\ 0 <= g_http g < 2^16 /\ 0 <= g_tcp g < 2^16 /\ 0 <= g_udp g < 2^16.
Definition smap_wf (m : smap) : Prop :=
  NoDup (smap_keys m) /\ Forall (fun kv => length (fst kv) = 32%nat /\ gserver_wf (snd kv)) m.

(* SerializeGCAServerMap: error when a location is longer than 0xFFFF.  The iteration
   order of a Go map is unspecified; the model serialises in list order and the harness
   compares decoded maps, never raw files. *)
Definition smap_entry (kv : bytes * gserver) : option bytes :=
  let (k, g) := kv in
  if (65535 <? Z.of_nat (length (g_loc g))) then None
  else Some (pad 32 k ++ [bool_byte (g_banned g)] ++ le_enc 2 (Z.of_nat (length (g_loc g))) ++ g_loc g ++
             le_enc 2 (g_http g) ++ le_enc 2 (g_tcp g) ++ le_enc 2 (g_udp g)).
Fixpoint smap_serialize (m : smap) : option bytes :=
  match m with
  | [] => Some []
  | kv :: m' => match smap_entry kv, smap_serialize m' with
                | Some e, Some r => Some (e ++ r)
                | _, _ => None
                end
  end.

(* UntrustedDeserializeGCAServerMap: None = any of its errors.  Fuel = number of input
   bytes + 1 (every entry consumes at least 41 bytes); running out of fuel is impossible
   (lemma smap_deserialize_fuel) and reported as a separate value. *)
Inductive dres := DOk (m : smap) | DErr | DFuel.
Fixpoint smap_deser (fuel : nat) (b : bytes) (acc : smap) : dres :=
  match fuel with
  | O => DFuel
  | S f =>
      match b with
      | [] => DOk acc
      | _ =>
          if (length b <? 32)%nat then DErr else
          let k := firstn 32 b in let b1 := skipn 32 b in
          match b1 with
          | [] => DErr
          | bn :: b2 =>
              if (length b2 <? 2)%nat then DErr else
              let ll := Z.to_nat (le_dec (firstn 2 b2)) in let b3 := skipn 2 b2 in
              if (length b3 <? ll)%nat then DErr else
              let loc := firstn ll b3 in let b4 := skipn ll b3 in
              (* bytes.Reader.Read at end of input returns io.EOF even for an empty buffer *)
              if (length b3 =? 0)%nat then DErr else
              if (length b4 <? 6)%nat then DErr else
              let g := {| g_banned := negb (Byte.eqb bn x00); g_loc := loc;
                          g_http := le_dec (firstn 2 b4); g_tcp := le_dec (firstn 2 (skipn 2 b4));
                          g_udp := le_dec (firstn 2 (skipn 4 b4)) |} in
              smap_deser f (skipn 6 b4) (smap_set k g acc)
          end
      end
  end.
Definition smap_deserialize (b : bytes) : dres := smap_deser (S (length b)) b [].

(* canonical comparison of two maps (both without duplicate keys) *)
Definition smap_sub (a b : smap) : bool :=
  forallb (fun kv => match smap_get (fst kv) b with Some g => gserver_eqb (snd kv) g | None => false end) a.
Definition smap_eqb (a b : smap) : bool := smap_sub a b && smap_sub b a && (length a =? length b)%nat.
