(* Definitions for the restart / crash theorems (C04, C05): the per-device window
   transition as a pure function, per-device replay of the report log, extensional
   equality of states, and the disk-memory agreement invariant. *)
From Coq Require Import ZArith List Bool.
From GCA Require Import Wrap Bytes Codec Amap Timeslot Server ServerInv.
Import ListNotations.
Open Scope Z_scope.
Notation length := List.length.

(* integrateReport's effect on one device's window *)
Definition dev_step (cap o : Z) (w : window) (r : report) : window :=
  if r_ts r <? o then w
  else if u32 (o + window_len) <=? r_ts r then w
  else
    let idx := u32 (r_ts r - o) in
    if window_len <=? idx then w
    else
      let cur := getslot idx w in
      if r_p cur =? 1 then w
      else if report_eqb cur r then w
      else
        let w1 := if r_p cur =? 0 then zset idx r w else zset idx (set_p cur 1) w in
        if overcap cap (r_p r) then zset idx (set_p (getslot idx w1) 1) w1 else w1.

(* does integrateReport record the report (memory changes, report appended to the log)? *)
Definition dev_records (o : Z) (w : window) (r : report) : bool :=
  negb (r_ts r <? o) && negb (u32 (o + window_len) <=? r_ts r) &&
  negb (window_len <=? u32 (r_ts r - o)) &&
  negb (r_p (getslot (u32 (r_ts r - o)) w) =? 1) &&
  negb (report_eqb (getslot (u32 (r_ts r - o)) w) r).

Definition for_dev (id : Z) (l : list report) : list report := filter (fun r => r_id r =? id) l.
Definition replay_dev (cap o : Z) (l : list report) : window := fold_left (dev_step cap o) l [].

Definition win_eq (w1 w2 : window) : Prop := forall i, zget i w1 = zget i w2.

(* extensional equality of the persistent part of memory (impact rates are not persisted:
   only their domain is compared) *)
Record mem_equiv (m1 m2 : mem) : Prop := {
  e_off : offset m1 = offset m2;
  e_hist : history m1 = history m2;
  e_gca : gca m1 = gca m2;
  e_avail : gca_avail m1 = gca_avail m2;
  e_temp : tempkey m1 = tempkey m2;
  e_keys : skeys m1 = skeys m2;
  e_eq : forall id, zget id (equipment m1) = zget id (equipment m2);
  e_idx : forall k, bget k (index m1) = bget k (index m2);
  e_bans : forall id, zin id (bans m1) = zin id (bans m2);
  e_rep : forall id, match zget id (reports m1), zget id (reports m2) with
                     | Some a, Some b => win_eq a b
                     | None, None => True
                     | _, _ => False
                     end;
  e_imp : forall id, zmem id (impact m1) = zmem id (impact m2)
}.

Definition auth_finite (a : auth) : Prop := f64_is_nan (a_lat a) = false /\ f64_is_nan (a_long a) = false.

Definition empty_tables (m0 : mem) : mem :=
  {| equipment := []; index := []; bans := []; reports := []; impact := [];
     offset := offset m0; history := history m0; gca := gca m0; gca_avail := gca_avail m0;
     tempkey := tempkey m0; skeys := skeys m0 |}.

Section DiskInv.
  Variable verify : bytes -> bytes -> bytes -> bool.

  (* the disk holds exactly what start-up needs to rebuild the persistent part of memory *)
  Record DiskInv (st : state) : Prop := {
    k_keys : d_keys (dd st) = Some (skeys (mm st));
    k_temp : exists tk, d_temp (dd st) = Some tk /\ pad 32 tk = tempkey (mm st);
    k_gca : d_gca (dd st) = if gca_avail (mm st) then Some (gca (mm st)) else None;
    k_gca_len : gca_avail (mm st) = true -> length (gca (mm st)) = 32%nat;
    k_gca_zero : gca_avail (mm st) = false -> gca (mm st) = zeros 32;
    k_stats : d_stats (dd st) = Some (history (mm st));
    k_auths : exists al, d_auths (dd st) = Some al /\
                (forall a, In a al -> verify (gca (mm st)) (auth_signing_bytes a) (a_sig a) = true /\ auth_finite a) /\
                (gca_avail (mm st) = false -> al = []) /\
                (let m1 := replay_auths (empty_tables (mm st)) al in
                 (forall id, zget id (equipment m1) = zget id (equipment (mm st))) /\
                 (forall k, bget k (index m1) = bget k (index (mm st))) /\
                 (forall id, zin id (bans m1) = zin id (bans (mm st))));
    k_fin : forall id a, zget id (equipment (mm st)) = Some a -> auth_finite a;
    k_reports : exists rl, d_reports (dd st) = Some rl /\
                  (forall r, In r rl ->
                     r_p r <> 0 /\ 0 <= r_ts r < offset (mm st) + window_len /\
                     (zmem (r_id r) (equipment (mm st)) = true \/ zin (r_id r) (bans (mm st)) = true) /\
                     (forall a, zget (r_id r) (equipment (mm st)) = Some a ->
                        verify (a_key a) (report_signing_bytes r) (r_sig r) = true)) /\
                  (forall id a w, zget id (equipment (mm st)) = Some a -> zget id (reports (mm st)) = Some w ->
                     win_eq w (replay_dev (a_cap a) (offset (mm st)) (for_dev id rl)))
  }.
End DiskInv.
