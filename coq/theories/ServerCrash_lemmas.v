From Coq Require Import ZArith List Bool Lia.
From GCA Require Import Wrap Bytes Bytes_lemmas Codec Amap Amap_lemmas Timeslot Server ServerInv ServerInv_lemmas ServerInv2_lemmas
                        ServerC02_lemmas ServerDisk ServerDisk_lemmas ServerDiskInv_lemmas ServerRestart_lemmas
                        ServerReach_lemmas ServerFull_lemmas ServerCrash.
Import ListNotations.
Open Scope Z_scope.
Set Default Proof Using "Type".
Notation length := List.length.

Definition norm {A} (o : option (list A)) : option (list A) := match o with Some l => Some l | None => Some [] end.
Definition norm_disk (dk : disk) : disk :=
  {| d_keys := d_keys dk; d_temp := d_temp dk; d_gca := d_gca dk; d_auths := norm (d_auths dk);
     d_reports := norm (d_reports dk); d_stats := norm (d_stats dk) |}.

Section CrashL.
  Variable verify : bytes -> bytes -> bytes -> bool.

  (* start-up does not distinguish an absent log from an empty one *)
  Lemma load_norm dk fresh : load verify dk fresh = load verify (norm_disk dk) fresh.
  Proof.
    unfold load, norm_disk, norm; cbn [d_keys d_temp d_gca d_auths d_reports d_stats].
    destruct (d_auths dk), (d_reports dk), (d_stats dk); reflexivity.
  Qed.

  (* a report log extended by reports it already contains is still a log of the same state *)
  Lemma disk_inv_tail st rl re :
    MemInv (mm st) -> DiskInv verify st -> d_reports (dd st) = Some rl -> (forall r, In r re -> In r rl) ->
    DiskInv verify {| mm := mm st; dd := disk_with_reports (dd st) (Some (rl ++ re)) |}.
  Proof.
    intros I D Drl Sub. destruct D as [Kk Kt Kg Kgl Kgz Ks Ka Kf Kr].
    constructor; cbn [mm dd disk_with_reports d_keys d_temp d_gca d_auths d_reports d_stats]; try assumption.
    destruct Kr as (rl0 & Drl0 & Hrl & Hwin). rewrite Drl in Drl0. inversion Drl0; subst rl0.
    exists (rl ++ re). split; [reflexivity|]. split.
    - intros r Hr. apply Hrl. apply in_app_or in Hr. destruct Hr as [X|X]; [exact X | apply Sub; exact X].
    - intros id a w Qe Qr. eapply win_eq_trans; [apply (Hwin _ _ _ Qe Qr)|].
      rewrite for_dev_app. unfold replay_dev at 2. rewrite fold_left_app.
      fold (replay_dev (a_cap a) (offset (mm st)) (for_dev id rl)).
      rewrite replay_idempotent_tail; [apply win_eq_refl| |].
      + intros r Hr. apply for_dev_In in Hr. apply for_dev_In. destruct Hr as [X1 Y1]. split; [apply Sub; exact X1 | exact Y1].
      + intros r Hr. apply for_dev_In in Hr. destruct Hr as [X1 _]. apply (Hrl r X1).
  Qed.

  Theorem startup_image_recovers st img fresh :
    Inv verify st -> startup_image (dd st) img ->
    exists st', load verify img fresh = LOk st' /\ mem_equiv (mm st') (mm st) /\ Inv verify st'.
  Proof.
    intros [I D] (Et & Eg & Ek & Ea & Es & rl & re & Drl & Sub & Er).
    pose proof (disk_inv_tail st rl re I D Drl Sub) as D'.
    set (st2 := {| mm := mm st; dd := disk_with_reports (dd st) (Some (rl ++ re)) |}) in *.
    destruct (load_spec verify st2 fresh I D') as (st' & L & ME & I' & DI').
    exists st'. split; [|split; [exact ME | split; assumption]].
    rewrite load_norm. rewrite <- L. rewrite (load_norm (dd st2)). f_equal.
    unfold norm_disk, st2; cbn [dd disk_with_reports d_keys d_temp d_gca d_auths d_reports d_stats].
    destruct D as [Kk Kt Kg Kgl Kgz Ks Ka Kf Kr]. destruct Ka as (al & Da & _).
    rewrite Ek, Et, Eg. f_equal.
    - destruct Ea as [->|[P ->]]; [reflexivity | rewrite P; reflexivity].
    - destruct Er as [->|[P ->]]; [reflexivity | rewrite P; reflexivity].
    - destruct Es as [->|[P ->]]; [reflexivity | rewrite P; reflexivity].
  Qed.
End CrashL.

Section CrashT.
  Variable verify : bytes -> bytes -> bytes -> bool.
  Variable sign : bytes -> bytes -> bytes.
  Variable stats_sb : list devstat -> Z -> bytes.

  Lemma catch_up_any_fuel k : forall st now, Inv verify st -> clock_ok now ->
    Inv verify (fst (catch_up sign stats_sb k st now)).
  Proof.
    induction k as [|k IH]; intros st now [I D] C; cbn [catch_up];
      pose proof (i_off_lo _ I) as Hlo; pose proof (i_off_hi _ I) as Hhi; unfold clock_ok in C;
      rewrite (i64_id now) by (unfold is_i64; lia); rewrite (i64_id (offset (mm st))) by (unfold is_i64; lia);
      destruct (Z.ltb_spec (now - offset (mm st)) catchup_bound) as [L|L]; cbn [fst]; try (split; assumption).
    assert (Hb : offset (mm st) + week_len <= 2 ^ 32 - 8192) by (unfold catchup_bound, week_len in *; lia).
    destruct (rotate_inv sign stats_sb st I Hb) as (I' & Q & O).
    pose proof (rotate_disk verify sign stats_sb st I D Hb) as D'.
    destruct (rotate sign stats_sb st) as [st' o] eqn:R. cbn [fst snd] in *. subst o.
    apply IH; [split; assumption | exact C].
  Qed.

  (* C05: whatever the operation and wherever the process dies, start-up on the surviving
     disk succeeds and yields the state before the operation or the state after it (for a
     crash during restart: the restarted state, possibly some catch-up rotations further) *)
  Theorem crash_recovers st o img fresh :
    Inv verify st -> op_ok o -> crash_image verify sign stats_sb st o img ->
    exists target, (target = st \/ target = fst (step verify sign stats_sb st o) \/
                    exists f n k st1, o = OpRestart f n /\ load verify (dd st) f = LOk st1 /\
                                      target = fst (catch_up sign stats_sb k st1 n)) /\
      Inv verify target /\
      exists st', load verify img fresh = LOk st' /\ mem_equiv (mm st') (mm target) /\ Inv verify st'.
  Proof.
    intros I K CI.
    assert (Post : Inv verify (fst (step verify sign stats_sb st o))) by (apply (step_inv verify sign stats_sb st o I K)).
    assert (G : forall t, Inv verify t -> exists st', load verify (dd t) fresh = LOk st' /\ mem_equiv (mm st') (mm t) /\ Inv verify st').
    { intros t [It Dt]. destruct (load_spec verify t fresh It Dt) as (s & L & ME & Is & Ds). exists s. split; [exact L|]. split; [exact ME|]. split; assumption. }
    destruct o as [now d|k s|a|tso|now|id ts v|f n]; cbn [crash_image] in CI;
      try (destruct CI as [->| ->]; [exists st; split; [left; reflexivity | split; [exact I | apply G; exact I]]
                                   | eexists; split; [right; left; reflexivity | split; [exact Post | apply G; exact Post]]]).
    destruct CI as [SI|(k & Hk & CI)].
    - exists st. split; [left; reflexivity|]. split; [exact I|]. apply startup_image_recovers; assumption.
    - destruct (restart_spec verify sign stats_sb st f n I K) as (st1 & L & ME & I1 & _).
      rewrite L in CI. subst img.
      pose proof (catch_up_any_fuel k st1 n I1 K) as Ik.
      exists (fst (catch_up sign stats_sb k st1 n)). split; [right; right; exists f, n, k, st1; split; [reflexivity|]; split; [exact L | reflexivity]|].
      split; [exact Ik | apply G; exact Ik].
  Qed.

  (* no crash point leaves a server that cannot be registered by its GCA: if the key file is
     absent after recovery the next correctly signed registration is accepted *)
  Theorem recovered_registrable st' k s :
    gca_avail (mm st') = false -> verify (tempkey (mm st')) (reg_signing_bytes k) s = true ->
    snd (register verify st' k s) = Accepted true.
  Proof. intros G V. unfold register. rewrite G, V. reflexivity. Qed.
End CrashT.
