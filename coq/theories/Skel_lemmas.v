(* Skel_lemmas.v -- soundness of the reflective checker of Skel.v, proved once:
   if [check_scope E = true] then NO execution path (any branch choices, any number of loop iterations,
   through callee bodies and spawned goroutine bodies, panics after defers) of any function in the scope
   produces a violation event, and every function leaves with the lock state it was entered with. *)
From Coq Require Import String List Bool Arith Lia.
From GCA Require Import Skel.
Import ListNotations.
Open Scope string_scope.
Open Scope list_scope.

(* ------------------------------------------------------------------ boolean equalities are equalities *)

Lemma strs_eqb_eq a : forall b, strs_eqb a b = true -> a = b.
Proof.
  induction a as [|x a IH]; intros [|y b] H; simpl in H; try discriminate; auto.
  apply andb_true_iff in H as [H1 H2]. apply String.eqb_eq in H1. subst. f_equal. auto.
Qed.

Lemma hold_eqb_eq a b : hold_eqb a b = true -> a = b.
Proof.
  destruct a, b; simpl; intros H; try discriminate; auto.
  apply andb_true_iff in H as [H1 H2]. apply String.eqb_eq in H1. apply Bool.eqb_prop in H2. subst. auto.
Qed.

Lemma st_eqb_eq a b : st_eqb a b = true -> a = b.
Proof.
  unfold st_eqb. intros H. apply andb_true_iff in H as [H H3]. apply andb_true_iff in H as [H1 H2].
  destruct a, b; simpl in *. apply hold_eqb_eq in H1. apply strs_eqb_eq in H2. apply strs_eqb_eq in H3.
  subst. auto.
Qed.

Lemma vk_code_inj a b : vk_code a = vk_code b -> a = b.
Proof. destruct a, b; simpl; intros H; try reflexivity; discriminate H. Qed.

Lemma viol_eqb_eq a b : viol_eqb a b = true -> a = b.
Proof.
  unfold viol_eqb. intros H. apply andb_true_iff in H as [H H3]. apply andb_true_iff in H as [H1 H2].
  apply Nat.eqb_eq in H1. apply vk_code_inj in H1. apply String.eqb_eq in H2. apply String.eqb_eq in H3.
  destruct a, b; simpl in *; subst; auto.
Qed.

Lemma res_eqb_eq a b : res_eqb a b = true -> a = b.
Proof.
  destruct a, b; simpl; intros H; try discriminate; auto;
    try (apply st_eqb_eq in H; subst; auto). apply viol_eqb_eq in H. subst. auto.
Qed.

Lemma mem_st_In x l : mem_st x l = true -> In x l.
Proof.
  unfold mem_st. intros H. apply existsb_exists in H as [y [Hy He]]. apply st_eqb_eq in He. subst. auto.
Qed.

Lemma mem_res_In x l : mem_res x l = true -> In x l.
Proof.
  unfold mem_res. intros H. apply existsb_exists in H as [y [Hy He]]. apply res_eqb_eq in He. subst. auto.
Qed.

Lemma dedup_res_In r l : In r l -> In r (dedup_res l).
Proof.
  induction l as [|x l IH]; simpl; auto. intros [Hx | Hl].
  - subst. destruct (mem_res r (dedup_res l)) eqn:Hm; [apply mem_res_In; auto | left; auto].
  - destruct (mem_res x (dedup_res l)); [auto | right; auto].
Qed.

Lemma add_sts_incl new : forall acc x, In x acc -> In x (add_sts new acc).
Proof.
  induction new as [|n new IH]; simpl; auto. intros acc x Hx.
  destruct (mem_st n acc); apply IH; auto. apply in_or_app. auto.
Qed.

Lemma grow_incl body fuel : forall W W', grow body fuel W = Some W' -> incl W W'.
Proof.
  induction fuel as [|fuel IH]; simpl; intros W W' H.
  - injection H as <-. apply incl_refl.
  - destruct (round body W) as [Hd|]; [|discriminate].
    destruct (Nat.eqb (length (add_sts Hd W)) (length W)).
    + injection H as <-. apply incl_refl.
    + apply IH in H. intros x Hx. apply H. apply add_sts_incl. auto.
Qed.

(* ------------------------------------------------------------------ sequencing *)

Lemma seq_all_norm k l : forall R s, seq_all k l = Some R -> In (Norm s) l ->
  exists R1, k s = Some R1 /\ incl R1 R.
Proof.
  induction l as [|r l IH]; simpl; intros R s H Hin; [contradiction|].
  destruct (seq_all k l) as [R'|] eqn:HR'; [|discriminate].
  destruct Hin as [-> | Hin].
  - destruct (k s) as [R1|] eqn:Hk; [|discriminate]. injection H as <-.
    exists R1. split; auto. apply incl_appl, incl_refl.
  - destruct (IH R' s eq_refl Hin) as [R1 [Hk Hi]]. exists R1. split; auto.
    destruct r; try (injection H as <-; apply incl_tl; auto).
    destruct (k s0); [|discriminate]. injection H as <-. apply incl_appr. auto.
Qed.

Lemma seq_all_abort k l : forall R r, seq_all k l = Some R -> In r l -> is_norm r = false -> In r R.
Proof.
  induction l as [|x l IH]; simpl; intros R r H Hin Hn; [contradiction|].
  destruct (seq_all k l) as [R'|] eqn:HR'; [|discriminate].
  destruct Hin as [-> | Hin].
  - destruct r; simpl in Hn; try discriminate; injection H as <-; left; auto.
  - specialize (IH R' r eq_refl Hin Hn).
    destruct x; try (injection H as <-; right; auto).
    destruct (k s); [|discriminate]. injection H as <-. apply in_or_app. auto.
Qed.

(* ------------------------------------------------------------------ loops *)

Lemma heads_In l s r : In r l -> next_iter r = Some s -> In s (heads l).
Proof.
  induction l as [|x l IH]; simpl; [contradiction|]. intros [-> | Hin] Hn.
  - destruct r; simpl in Hn; try discriminate; injection Hn as ->; left; auto.
  - specialize (IH Hin Hn). destruct x; auto; right; auto.
Qed.

Lemma loop_exits_brk l s : In (Brk s) l -> In (Norm s) (loop_exits l).
Proof.
  induction l as [|x l IH]; simpl; [contradiction|]. intros [-> | Hin].
  - left; auto.
  - specialize (IH Hin). destruct x; auto; right; auto.
Qed.

Lemma loop_exits_abort l r : In r l -> is_abort r = true -> In r (loop_exits l).
Proof.
  induction l as [|x l IH]; simpl; [contradiction|]. intros [-> | Hin] Ha.
  - destruct r; simpl in Ha; try discriminate; left; auto.
  - specialize (IH Hin Ha). destruct x; auto; right; auto.
Qed.

Lemma closed_at body W s : closed body W = true -> In s W ->
  exists L, body s = Some L /\ forall h, In h (heads L) -> In h W.
Proof.
  unfold closed. intros H Hin. rewrite forallb_forall in H. specialize (H s Hin).
  destruct (body s) as [L|]; [|discriminate]. exists L. split; auto.
  rewrite forallb_forall in H. intros h Hh. apply mem_st_In. auto.
Qed.

Lemma loop_out_body inf body W s L r : In s W -> body s = Some L -> In r (loop_exits L) ->
  In r (loop_out inf body W).
Proof.
  intros Hs Hb Hr. unfold loop_out. apply in_or_app. right.
  apply in_flat_map. exists s. split; auto. rewrite Hb. auto.
Qed.

(* ------------------------------------------------------------------ calls *)

Lemma find_fn_In l g f : find_fn l g = Some f -> In f l.
Proof.
  induction l as [|x l IH]; simpl; [discriminate|].
  destruct (String.eqb g (f_name x)); intros H; [injection H as <-; left; auto | right; auto].
Qed.

Lemma call_entry_inr E cx g s f e sa : call_entry E cx g s = inr (f, e, sa) ->
  In f (e_fns E) /\ In e (entries (c_kind (f_con f))).
Proof.
  unfold call_entry. destruct (find_fn (e_fns E) g) as [f0|] eqn:Hf; [|discriminate].
  apply find_fn_In in Hf.
  destruct (c_ctor (f_con f0) && negb (is_new_kind (c_kind (f_con f0))) && negb (cx_ctor cx)); [discriminate|].
  destruct (c_blocks (f_con f0) && negb (cx_blocks cx)); [discriminate|].
  destruct (c_blocks (f_con f0) && e_netio E && is_held (hold_of s)); [discriminate|].
  destruct (c_kind (f_con f0)) eqn:Hk; destruct (hold_of s) eqn:Hh; intros H;
    try discriminate H;
    try (injection H as <- <- <-; rewrite Hk; simpl; auto; fail).
  destruct (String.eqb m m0) eqn:Hm; [|discriminate].
  injection H as <- <- <-. rewrite Hk. simpl. auto.
Qed.

Lemma ures_ok_assumed E f u : ures_ok E f u = true -> In u (assumed E f).
Proof.
  unfold ures_ok, assumed. destruct u; intros H; simpl.
  - left; auto.
  - right. rewrite H. left; auto.
  - right. apply in_or_app. right. destruct (e_panic E); [discriminate | left; auto].
  - discriminate.
Qed.

Lemma post_call E cx g s : post E cx (Call g) s =
  match call_entry E cx g s with
  | inl v => Some [Viol v; Norm s]
  | inr (f, _, sa) => Some (map (after_call sa) (assumed E f))
  end.
Proof. reflexivity. Qed.

Lemma recov_In r s : In r (recov r s).
Proof. destruct r; simpl; auto. Qed.

(* ------------------------------------------------------------------ the interpreter covers every path *)

Section Sound.
Variable E : env.
Hypothesis Hok : check_scope E = true.

Lemma scope_fn_ok f : In f (e_fns E) -> in_scope E f = true -> check_fn E f = true.
Proof.
  intros Hin Hs. unfold check_scope in Hok. rewrite forallb_forall in Hok.
  specialize (Hok f Hin). rewrite Hs in Hok. auto.
Qed.

Lemma post_sound : forall cx t s r, exec E cx t s r ->
  (forall L, post E cx t s = Some L -> In r L) /\
  (forall inf b, t = Loop inf b -> forall W, closed (post E cx b) W = true -> In s W ->
     In r (loop_out inf (post E cx b) W)).
Proof.
  assert (Hloop : forall cx inf b s r,
    (forall W, closed (post E cx b) W = true -> In s W -> In r (loop_out inf (post E cx b) W)) ->
    forall L, post E cx (Loop inf b) s = Some L -> In r L).
  { intros cx inf b s r H L HL.
    change (post E cx (Loop inf b) s) with
      (match grow (post E cx b) loop_fuel [s] with
       | None => None
       | Some W => if closed (post E cx b) W
                   then Some (dedup_res (loop_out inf (post E cx b) W)) else None
       end) in HL.
    destruct (grow (post E cx b) loop_fuel [s]) as [W|] eqn:Hg; [|discriminate].
    destruct (closed (post E cx b) W) eqn:Hc; [|discriminate]. injection HL as <-.
    apply dedup_res_In. apply H; auto. apply (grow_incl _ _ _ _ Hg). left; auto. }
  intros cx t s r Hex.
  induction Hex as
    [ cx s | cx m s | cx m s | cx m s | cx f s | cx f s | cx w s | cx c s | cx c s
    | cx s | cx s | cx s | cx s | cx u s
    | cx a b s s1 r Ha IHa Hb IHb
    | cx a b s r Ha IHa Hn
    | cx a b s r Ha IHa
    | cx a b s r Hb IHb
    | cx b s r Hb IHb
    | cx b s
    | cx inf b s r1 s1 r Hb IHb Hnext Hl IHl
    | cx inf b s s1 Hb IHb
    | cx inf b s r Hb IHb Hab
    | cx g s v Hce
    | cx g s f e sa rb Hce Hsc Hb IHb
    | cx g s f e sa u Hce Hsc Hu
    | cx b s rb v Hb IHb Hfin
    | cx b s ];
    try (split; [intros L HL; simpl in HL; injection HL as <-; simpl; auto using recov_In
                | intros inf0 b0 Heq; discriminate Heq]).
  - (* SeqNorm *)
    split; [|intros inf0 b0 Heq; discriminate Heq].
    intros L HL. simpl in HL. destruct (post E cx a s) as [La|] eqn:HLa; [|discriminate].
    destruct (seq_all (post E cx b) La) as [R|] eqn:HR; [|discriminate]. injection HL as <-.
    apply dedup_res_In.
    destruct (seq_all_norm _ _ _ _ HR (proj1 IHa La eq_refl)) as [R1 [Hk Hi]].
    apply Hi. apply (proj1 IHb). auto.
  - (* SeqAbort *)
    split; [|intros inf0 b0 Heq; discriminate Heq].
    intros L HL. simpl in HL. destruct (post E cx a s) as [La|] eqn:HLa; [|discriminate].
    destruct (seq_all (post E cx b) La) as [R|] eqn:HR; [|discriminate]. injection HL as <-.
    apply dedup_res_In. eapply seq_all_abort; eauto. apply (proj1 IHa). auto.
  - (* ChoiceL *)
    split; [|intros inf0 b0 Heq; discriminate Heq].
    intros L HL. simpl in HL. destruct (post E cx a s) as [La|] eqn:HLa; [|discriminate].
    destruct (post E cx b s) as [Lb|]; [|discriminate]. injection HL as <-.
    apply dedup_res_In, in_or_app. left. apply (proj1 IHa). auto.
  - (* ChoiceR *)
    split; [|intros inf0 b0 Heq; discriminate Heq].
    intros L HL. simpl in HL. destruct (post E cx a s) as [La|]; [|discriminate].
    destruct (post E cx b s) as [Lb|] eqn:HLb; [|discriminate]. injection HL as <-.
    apply dedup_res_In, in_or_app. right. apply (proj1 IHb). auto.
  - (* Block *)
    split; [|intros inf0 b0 Heq; discriminate Heq].
    intros L HL. simpl in HL. destruct (post E cx b s) as [Lb|] eqn:HLb; [|discriminate].
    injection HL as <-. apply dedup_res_In, in_map. apply (proj1 IHb). auto.
  - (* LoopExit *)
    assert (H2 : forall W, closed (post E cx b) W = true -> In s W ->
                           In (Norm s) (loop_out false (post E cx b) W)).
    { intros W _ Hs. unfold loop_out. apply in_or_app. left. apply in_map. auto. }
    split; [apply Hloop; auto|]. intros inf0 b0 Heq. injection Heq as <- <-. auto.
  - (* LoopIter *)
    assert (H2 : forall W, closed (post E cx b) W = true -> In s W ->
                           In r (loop_out inf (post E cx b) W)).
    { intros W Hc Hs. destruct (closed_at _ _ _ Hc Hs) as [L [HL Hh]].
      apply (proj2 IHl inf b eq_refl W Hc). apply Hh. eapply heads_In; eauto.
      apply (proj1 IHb). auto. }
    split; [apply Hloop; auto|]. intros inf0 b0 Heq. injection Heq as <- <-. auto.
  - (* LoopBreak *)
    assert (H2 : forall W, closed (post E cx b) W = true -> In s W ->
                           In (Norm s1) (loop_out inf (post E cx b) W)).
    { intros W Hc Hs. destruct (closed_at _ _ _ Hc Hs) as [L [HL Hh]].
      eapply loop_out_body; eauto. apply loop_exits_brk. apply (proj1 IHb). auto. }
    split; [apply Hloop; auto|]. intros inf0 b0 Heq. injection Heq as <- <-. auto.
  - (* LoopAbort *)
    assert (H2 : forall W, closed (post E cx b) W = true -> In s W ->
                           In r (loop_out inf (post E cx b) W)).
    { intros W Hc Hs. destruct (closed_at _ _ _ Hc Hs) as [L [HL Hh]].
      eapply loop_out_body; eauto. apply loop_exits_abort; auto. apply (proj1 IHb). auto. }
    split; [apply Hloop; auto|]. intros inf0 b0 Heq. injection Heq as <- <-. auto.
  - (* CallBad *)
    split; [|intros inf0 b0 Heq; discriminate Heq].
    intros L HL. rewrite post_call, Hce in HL. injection HL as <-. left; auto.
  - (* CallRun: the callee is in the scope, hence checked *)
    split; [|intros inf0 b0 Heq; discriminate Heq].
    intros L HL. rewrite post_call, Hce in HL. injection HL as <-.
    change (In (after_call sa (finish E (ctx_of f) (c_kind (f_con f)) e rb))
               (map (after_call sa) (assumed E f))).
    apply in_map. apply ures_ok_assumed.
    destruct (call_entry_inr _ _ _ _ _ _ _ Hce) as [Hin He].
    pose proof (scope_fn_ok f Hin Hsc) as Hck. unfold check_fn in Hck.
    rewrite forallb_forall in Hck. specialize (Hck e He). unfold check_entry in Hck.
    destruct (post E (ctx_of f) (f_body f) (init e)) as [Lb|] eqn:HLb; [|discriminate].
    rewrite forallb_forall in Hck. apply Hck. apply (proj1 IHb). auto.
  - (* CallAssumed *)
    split; [|intros inf0 b0 Heq; discriminate Heq].
    intros L HL. rewrite post_call, Hce in HL. injection HL as <-.
    change (In (after_call sa u) (map (after_call sa) (assumed E f))). apply in_map. auto.
  - (* SpawnViol *)
    split; [|intros inf0 b0 Heq; discriminate Heq].
    intros L HL. simpl in HL.
    destruct (post E (spawn_ctx cx) b (init HFree)) as [Lb|] eqn:HLb; [|discriminate].
    injection HL as <-. apply dedup_res_In, in_or_app. left. unfold unit_viols.
    apply in_flat_map. exists rb. split; [apply (proj1 IHb); auto|]. rewrite Hfin. left; auto.
  - (* Spawn *)
    split; [|intros inf0 b0 Heq; discriminate Heq].
    intros L HL. simpl in HL.
    destruct (post E (spawn_ctx cx) b (init HFree)) as [Lb|]; [|discriminate].
    injection HL as <-. apply dedup_res_In, in_or_app. right. left; auto.
Qed.

(* ------------------------------------------------------------------ THE soundness theorem *)

(* For every function f in the scope, entered in any lock state e its contract allows, every complete run
   [fn_run E f e u] -- any path through its skeleton, the skeletons of the callees in the scope and of the
   goroutines it starts, with its defers run at return and at panic -- ends without a violation event;
   it panics only if its contract says so, and dies only in the non-strict panic mode. *)
Theorem check_scope_sound :
  forall f, In f (e_fns E) -> in_scope E f = true ->
  forall e, In e (entries (c_kind (f_con f))) ->
  forall u, fn_run E f e u ->
    match u with
    | UViol _ => False
    | UPanic => c_panics (f_con f) = true
    | UDie => e_panic E = false
    | UOk => True
    end.
Proof.
  intros f Hin Hsc e He u [rb [Hex ->]].
  pose proof (scope_fn_ok f Hin Hsc) as Hck. unfold check_fn in Hck.
  rewrite forallb_forall in Hck. specialize (Hck e He). unfold check_entry in Hck.
  destruct (post E (ctx_of f) (f_body f) (init e)) as [Lb|] eqn:HLb; [|discriminate].
  rewrite forallb_forall in Hck. specialize (Hck rb (proj1 (post_sound _ _ _ _ Hex) Lb HLb)).
  unfold ures_ok in Hck. destruct (finish E (ctx_of f) (c_kind (f_con f)) e rb); auto.
  - destruct (e_panic E); [discriminate | auto].
  - discriminate.
Qed.

Corollary no_violation_on_any_path :
  forall f, In f (e_fns E) -> in_scope E f = true ->
  forall e, In e (entries (c_kind (f_con f))) ->
  forall rb, exec E (ctx_of f) (f_body f) (init e) rb ->
    (forall v, rb <> Viol v) /\
    (forall v, finish E (ctx_of f) (c_kind (f_con f)) e rb <> UViol v).
Proof.
  intros f Hin Hsc e He rb Hex.
  assert (H : forall v, finish E (ctx_of f) (c_kind (f_con f)) e rb <> UViol v).
  { intros v Hv. pose proof (check_scope_sound f Hin Hsc e He _ (ex_intro _ rb (conj Hex eq_refl))) as H.
    rewrite Hv in H. exact H. }
  split; auto. intros v ->. apply (H v). reflexivity.
Qed.

End Sound.

(* what a clean exit means: the defers ran and the lock state is the entry state *)
Lemma finish_UOk E cx k e r : finish E cx k e r = UOk ->
  exists s h, (r = Norm s \/ r = Ret s) /\ unwind cx (defers s) (hold_of s) = inr h /\ exit_ok k e h = true.
Proof.
  destruct r as [s|s|s|s|s| |v]; simpl; try discriminate;
    try (destruct (unwind cx (defers s) (hold_of s)) as [v|h] eqn:Hu; [discriminate|];
         destruct (exit_ok k e h) eqn:Hx; [|discriminate]; intros _; exists s, h; auto).
  destruct (unwind cx (defers s) (hold_of s)) as [v|h]; [discriminate|].
  destruct (exit_ok k e h); [discriminate|]. destruct (e_panic E); discriminate.
Qed.

Lemma exit_ok_same k e h : exit_ok k e h = true -> is_new_kind k = false -> h = e.
Proof.
  unfold exit_ok. intros H Hk. rewrite Hk in H. simpl in H. rewrite orb_false_r in H.
  symmetry. apply hold_eqb_eq. auto.
Qed.

(* ------------------------------------------------------------------ critical sections (C07) *)

Definition res_state (r : res) : option st :=
  match r with Norm s | Brk s | Cont s | Ret s | Pan s => Some s | _ => None end.

Lemma call_entry_held E cx g s f e sa : is_held (hold_of s) = true ->
  call_entry E cx g s = inr (f, e, sa) -> sa = s.
Proof.
  unfold call_entry. intros Hh. destruct (find_fn (e_fns E) g) as [f0|]; [|discriminate].
  destruct (c_ctor (f_con f0) && negb (is_new_kind (c_kind (f_con f0))) && negb (cx_ctor cx)); [discriminate|].
  destruct (c_blocks (f_con f0) && negb (cx_blocks cx)); [discriminate|].
  destruct (c_blocks (f_con f0) && e_netio E && is_held (hold_of s)); [discriminate|].
  destruct (c_kind (f_con f0)); destruct (hold_of s); simpl in Hh; try discriminate Hh; intros H;
    try discriminate H; try (injection H as _ _ <-; auto; fail).
  destruct (String.eqb m m0); [|discriminate]. injection H as _ _ <-. auto.
Qed.

(* A statement without lock operations never changes the lock state while a mutex is held: every
   intermediate and final state of every path still holds the same mutex.  (The callees are covered by
   the checker: a callee entered with the mutex held can neither unlock it -- VUnlockBorrowed -- nor
   lock anything.) *)
Lemma lock_free_keeps_hold E cx t s r : exec E cx t s r -> lock_free t = true ->
  is_held (hold_of s) = true -> forall s', res_state r = Some s' -> hold_of s' = hold_of s.
Proof.
  intros Hex. induction Hex; simpl; intros Hlf Hh s' Hr;
    try discriminate Hlf; try discriminate Hr;
    try (injection Hr as <-; reflexivity).
  - (* Read *) unfold do_access in Hr. destruct (field_class E f) as [[m|]|]; try discriminate Hr.
    + destruct (guard_ok (hold_of s) m || (negb false && pair_mem (cx_name cx) f (e_exempt E)));
        [injection Hr as <-; auto | discriminate].
    + simpl in Hr. injection Hr as <-; auto.
  - (* Write *) unfold do_access in Hr. destruct (field_class E f) as [[m|]|]; try discriminate Hr.
    + destruct (guard_ok (hold_of s) m || (negb true && pair_mem (cx_name cx) f (e_exempt E)));
        [injection Hr as <-; auto | discriminate].
    + destruct (true && negb (cx_ctor cx)); [discriminate | injection Hr as <-; auto].
  - (* NetIO *) unfold do_netio in Hr. destruct (negb (cx_blocks cx)); [discriminate|].
    destruct (e_netio E && is_held (hold_of s)); [discriminate | injection Hr as <-; auto].
  - (* BlockingRead *) unfold do_bread, do_netio in Hr. destruct (negb (cx_blocks cx)); [discriminate|].
    destruct (e_netio E && is_held (hold_of s)); [discriminate|].
    destruct (e_deadline E && negb (mem_str c (dls s))); [discriminate | injection Hr as <-; auto].
  - (* SeqNorm *) apply andb_true_iff in Hlf as [Hla Hlb].
    assert (H1 : hold_of s1 = hold_of s) by (apply IHHex1; auto).
    rewrite <- H1. apply IHHex2; auto. rewrite H1. auto.
  - (* SeqAbort *) apply andb_true_iff in Hlf as [Hla Hlb]. apply IHHex; auto.
  - (* ChoiceL *) apply andb_true_iff in Hlf as [Hla Hlb]. apply IHHex; auto.
  - (* ChoiceR *) apply andb_true_iff in Hlf as [Hla Hlb]. apply IHHex; auto.
  - (* Block *) apply IHHex; auto. destruct r; simpl in *; auto.
  - (* LoopIter *)
    assert (H1 : hold_of s1 = hold_of s).
    { apply IHHex1; auto. destruct r1; simpl in *; try discriminate; auto. }
    rewrite <- H1. apply IHHex2; auto. rewrite H1. auto.
  - (* LoopBreak *) injection Hr as <-. apply IHHex; auto.
  - (* LoopAbort *) apply IHHex; auto.
  - (* CallRun *) rewrite (call_entry_held _ _ _ _ _ _ _ Hh H) in Hr.
    destruct (finish E (ctx_of f) (c_kind (f_con f)) e rb); simpl in Hr; try discriminate;
      injection Hr as <-; auto.
  - (* CallAssumed *) rewrite (call_entry_held _ _ _ _ _ _ _ Hh H) in Hr.
    destruct u; simpl in Hr; try discriminate; injection Hr as <-; auto.
Qed.

(* "Lock m; defer Unlock m; rest" with lock-free rest: whatever path is taken through rest, m is held
   by this function from the Lock to the function's exit -- one uninterrupted critical section. *)
Theorem one_section_uninterrupted E cx m t rest :
  one_section m t = Some rest ->
  t = Seq (Lock m) (Seq (DeferUnlock m) rest) /\
  forall s r, hold_of s = HHeld m true -> exec E cx rest s r ->
    forall s', res_state r = Some s' -> hold_of s' = HHeld m true.
Proof.
  unfold one_section. destruct t; try discriminate. destruct t1; try discriminate.
  destruct t2; try discriminate. destruct t2_1; try discriminate.
  destruct (String.eqb m m0 && String.eqb m m1 && lock_free t2_2) eqn:Hc; [|discriminate].
  intros H. injection H as <-.
  apply andb_true_iff in Hc as [Hc Hlf]. apply andb_true_iff in Hc as [H1 H2].
  apply String.eqb_eq in H1. apply String.eqb_eq in H2. subst. split; auto.
  intros s r Hs Hex s' Hr. rewrite <- Hs. eapply lock_free_keeps_hold; eauto. rewrite Hs. reflexivity.
Qed.

(* ------------------------------------------------------------------ non-vacuity *)

Module Examples.

Definition con (k : kind) : contract := {| c_kind := k; c_ctor := false; c_blocks := true; c_panics := false |}.

(* the shape of client.threadedSyncWithServer before the D9 fix: a return inside the retry loop
   between Lock and Unlock *)
Definition bad_body : stmt :=
  Seq (Loop false
         (Seq (Choice Return Skip)
         (Seq (NetIO "sleep")
         (Seq (Lock "mu")
         (Seq (Read "servers")
         (Seq (Choice (Seq (Read "log") Return) Skip)         (* "no server found": return, mu held *)
         (Seq (Unlock "mu")
         (Seq (NetIO "dial") (Choice Break Skip)))))))))
      (Seq (Lock "mu") (Seq (Write "servers") (Seq (Unlock "mu") Return))).

Definition good_body : stmt :=
  Seq (Loop false
         (Seq (Choice Return Skip)
         (Seq (NetIO "sleep")
         (Seq (Lock "mu")
         (Seq (Read "servers")
         (Seq (Choice (Seq (Read "log") (Seq (Unlock "mu") Return)) Skip)
         (Seq (Unlock "mu")
         (Seq (NetIO "dial") (Choice Break Skip)))))))))
      (Seq (Lock "mu") (Seq (Write "servers") (Seq (Unlock "mu") Return))).

Definition mkfn (n : string) (b : stmt) : fn :=
  {| f_name := n; f_recv := "C"; f_naming := NThreaded; f_con := con KFree; f_body := b |}.

Definition mkenv (fs : list fn) : env :=
  {| e_fields := [("servers", FGuard "mu"); ("log", FStatic)]; e_exempt := [];
     e_fns := fs; e_scope := map f_name fs;
     e_netio := true; e_panic := true; e_deadline := true |}.

Definition Ebad := mkenv [mkfn "sync" bad_body].
Definition Egood := mkenv [mkfn "sync" good_body].

Example bad_rejected : check_scope Ebad = false.
Proof. vm_compute. reflexivity. Qed.

Example good_accepted : check_scope Egood = true.
Proof. vm_compute. reflexivity. Qed.

(* the checker is not vacuously strict: the semantics really has the offending path
   (one iteration, the lock is taken, "no server found", return with mu held) *)
Example bad_path_exists :
  fn_run Ebad (mkfn "sync" bad_body) HFree
    (UViol {| v_kind := VUnbalancedReturn; v_what := "mu held"; v_fn := "sync" |}).
Proof.
  set (s1 := {| hold_of := HHeld "mu" true; defers := []; dls := [] |}).
  exists (Ret s1). split; [|reflexivity].
  unfold bad_body. set (cx := ctx_of (mkfn "sync" bad_body)). simpl f_body.
  apply E_SeqAbort; [|reflexivity].
  apply E_LoopAbort; [|reflexivity].
  apply E_SeqNorm with (s1 := init HFree); [apply E_ChoiceR; apply E_Skip|].
  apply E_SeqNorm with (s1 := init HFree); [exact (E_NetIO Ebad cx "sleep" (init HFree))|].
  apply E_SeqNorm with (s1 := s1); [exact (E_Lock Ebad cx "mu" (init HFree))|].
  apply E_SeqNorm with (s1 := s1); [exact (E_Read Ebad cx "servers" s1)|].
  apply E_SeqAbort; [|reflexivity].
  apply E_ChoiceL.
  apply E_SeqNorm with (s1 := s1); [exact (E_Read Ebad cx "log" s1)|].
  apply E_Return.
Qed.

(* and the good one, by the theorem, has no such path at all *)
Example good_all_paths u : fn_run Egood (mkfn "sync" good_body) HFree u -> u = UOk.
Proof.
  intros H.
  pose proof (check_scope_sound Egood good_accepted (mkfn "sync" good_body)
                (or_introl eq_refl) eq_refl HFree (or_introl eq_refl) u H) as Hs.
  destruct u; auto; simpl in Hs; try discriminate; contradiction.
Qed.

End Examples.
