# Per-property configuration of ./check: one file per property under props.d/ (PROP = driver config, TEXT = MANIFEST texts).
import os, glob, importlib.util

TRUSTED_BASE = [
    "Coq 8.16.1 kernel; vm_compute (generated obligations and evaluation of the model on harness histories); native_compute not used",
    "axioms: none declared in the development; Print Assumptions output per theorem is recorded under coverage.axioms_by_theorem",
    "correspondence check: Go harness (/verif/harness) driving the real packages built from /repo with -tags 'test verif'; generators, canonicalisers and property oracles are trusted",
    "translators: harness/suites/consts.go (constants + go/ast literal extraction), harness/suites/layouts.go + layoutprobe.go (fixed-width codec layouts from the source, confirmed or replaced by bit probing of the compiled functions), harness/suites/skeletons.go (lock/IO skeletons)",
    "Go toolchain, OS",
]

PROPS, TEXTS = {}, {}
_d = os.path.join(os.path.dirname(os.path.abspath(__file__)), "props.d")
for _f in sorted(glob.glob(os.path.join(_d, "C*.py"))):
    _spec = importlib.util.spec_from_file_location("propsd_" + os.path.basename(_f)[:-3], _f)
    _m = importlib.util.module_from_spec(_spec)
    _spec.loader.exec_module(_m)
    _id = os.path.basename(_f)[:-3]
    PROPS[_id] = _m.PROP
    TEXTS[_id] = _m.TEXT

NOT_YET = {("C%02d" % i): "check not built yet in this round (planned in DESIGN.md section 5; not a claim that the technique cannot apply)" for i in range(1, 21)}
