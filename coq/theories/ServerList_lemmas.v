(* Proofs about ServerList.v: the server-side list of authorized servers under arbitrary
   sequences of POST requests, and the stored migration orders. *)
From Coq Require Import ZArith List Bool Lia.
From GCA Require Import Bytes Bytes_lemmas CodecSync ServerList.
Import ListNotations.
Open Scope Z_scope.

Section Lemmas.
  Variable verify : bytes -> bytes -> bytes -> bool.
  Variable gk : bytes.                       (* the registered GCA key (registration is one-shot) *)

  Definition signed (s : aserver) : Prop := verify gk (as_signing_bytes s) (as_sig s) = true.

  (* how one accepted POST changes position i *)
  Definition pos_change (s x y : aserver) : Prop :=
    y = x \/ (as_banned x = false /\ as_banned y = true /\ as_key y = as_key x /\ y = s).

  Lemma upsert_nth s : forall l i x, nth_error l i = Some x ->
    exists y, nth_error (upsert l s) i = Some y /\ pos_change s x y.
  Proof.
    induction l as [|z l IH]; intros i x H; [destruct i; discriminate|].
    cbn [upsert]. destruct (bytes_eqb (as_key z) (as_key s)) eqn:E.
    - destruct (as_banned z) eqn:Bz; [exists x; split; [exact H | left; reflexivity]|].
      destruct (as_banned s) eqn:Bs; cbn [negb]; [|exists x; split; [exact H | left; reflexivity]].
      destruct i as [|i]; cbn [nth_error] in *.
      + injection H as <-. exists s. split; [reflexivity|]. right. apply bytes_eqb_eq in E. repeat split; congruence.
      + exists x. split; [exact H | left; reflexivity].
    - destruct i as [|i]; cbn [nth_error] in *.
      + exists x. split; [exact H | left; reflexivity].
      + apply IH. exact H.
  Qed.
  Lemma upsert_banned_fixed s : forall l i x, nth_error l i = Some x -> as_banned x = true ->
    nth_error (upsert l s) i = Some x.
  Proof.
    intros l i x H B. destruct (upsert_nth s l i x H) as [y [Hy [->|(C & _)]]]; [exact Hy | congruence].
  Qed.
  Lemma upsert_in s y : forall l, In y (upsert l s) -> In y l \/ y = s.
  Proof.
    induction l as [|z l IH]; cbn [upsert].
    - intros [H|[]]; right; congruence.
    - destruct (bytes_eqb (as_key z) (as_key s)).
      + destruct (as_banned z); [tauto|]. destruct (negb (as_banned s)); [tauto|].
        intros [H|H]; [right; congruence | left; right; exact H].
      + intros [H|H]; [left; left; exact H|]. destruct (IH H); [left; right; assumption | right; assumption].
  Qed.
  Lemma upsert_length s : forall l, (length l <= length (upsert l s))%nat.
  Proof.
    induction l as [|z l IH]; cbn [upsert length]; [lia|].
    destruct (bytes_eqb (as_key z) (as_key s)); [destruct (as_banned z); [cbn; lia|]; destruct (negb (as_banned s)); cbn; lia|].
    cbn [length]. lia.
  Qed.

  Lemma post_server_cases l s :
    (signed s /\ post_server verify gk l s = (upsert l s, true)) \/
    (~ signed s /\ post_server verify gk l s = (l, false)).
  Proof.
    unfold post_server, signed. destruct (verify gk (as_signing_bytes s) (as_sig s)); [left | right]; split; congruence.
  Qed.

  (* ---- for every sequence of POST requests ---- *)
  Theorem enter_signed : forall posts l y, In y (post_all verify gk l posts) ->
    In y l \/ (In y posts /\ signed y).
  Proof.
    unfold post_all. induction posts as [|s posts IH]; intros l y H; cbn [fold_left] in H; [left; exact H|].
    destruct (IH _ _ H) as [A|[A B]]; [|right; split; [right; exact A | exact B]].
    destruct (post_server_cases l s) as [[Sg E]|[_ E]]; rewrite E in A; cbn [fst] in A.
    - apply upsert_in in A as [A| ->]; [left; exact A | right; split; [left; reflexivity | exact Sg]].
    - left. exact A.
  Qed.

  Definition seq_change (posts : list aserver) (x y : aserver) : Prop :=
    y = x \/ (as_banned x = false /\ as_banned y = true /\ as_key y = as_key x /\ In y posts /\ signed y).

  Theorem banned_never_changes : forall posts l i x, nth_error l i = Some x -> as_banned x = true ->
    nth_error (post_all verify gk l posts) i = Some x.
  Proof.
    unfold post_all. induction posts as [|s posts IH]; intros l i x H B; cbn [fold_left]; [exact H|].
    apply IH; [|exact B].
    destruct (post_server_cases l s) as [[_ E]|[_ E]]; rewrite E; cbn [fst]; [apply upsert_banned_fixed; assumption | exact H].
  Qed.

  Theorem entries_stable : forall posts l i x, nth_error l i = Some x ->
    exists y, nth_error (post_all verify gk l posts) i = Some y /\ seq_change posts x y.
  Proof.
    unfold post_all. induction posts as [|s posts IH]; intros l i x H; cbn [fold_left].
    - exists x. split; [exact H | left; reflexivity].
    - destruct (post_server_cases l s) as [[Sg E]|[_ E]]; rewrite E; cbn [fst].
      + destruct (upsert_nth s l i x H) as [y [Hy C]].
        destruct C as [->|(Bx & By & K & ->)].
        * destruct (IH _ _ _ Hy) as [z [Hz C]]. exists z. split; [exact Hz|].
          destruct C as [->|(A1 & A2 & A3 & A4 & A5)]; [left; reflexivity | right; repeat split; try assumption; right; exact A4].
        * exists s. split.
          -- apply (banned_never_changes posts (upsert l s) i s Hy By).
          -- right. repeat split; try assumption. left; reflexivity.
      + destruct (IH _ _ _ H) as [z [Hz C]]. exists z. split; [exact Hz|].
        destruct C as [->|(A1 & A2 & A3 & A4 & A5)]; [left; reflexivity | right; repeat split; try assumption; right; exact A4].
  Qed.

  Theorem list_only_grows : forall posts l, (length l <= length (post_all verify gk l posts))%nat.
  Proof.
    unfold post_all. induction posts as [|s posts IH]; intros l; cbn [fold_left]; [lia|].
    eapply Nat.le_trans; [|apply IH].
    destruct (post_server_cases l s) as [[_ E]|[_ E]]; rewrite E; cbn [fst]; [apply upsert_length | lia].
  Qed.

  (* the handler lets the GCA ban but never un-ban; the strict reading "an entry changes only
     by becoming banned" holds on the server side *)

  (* ---- migration orders ---- *)
  Lemma validate_migration_spec m : validate_migration verify gk m = true <->
    verify gk (mg_signing_bytes m) (mg_sig m) = true /\
    Forall (fun s => verify (mg_newgca m) (as_signing_bytes s) (as_sig s) = true) (mg_servers m).
  Proof.
    unfold validate_migration. rewrite andb_true_iff, forallb_forall, Forall_forall. tauto.
  Qed.

  Lemma migs_set_in k m kv : forall l, In kv (migs_set k m l) -> In kv l \/ (snd kv = m /\ fst kv = k).
  Proof.
    induction l as [|[k' m'] l IH]; cbn [migs_set].
    - intros [H|[]]. right. subst kv. split; reflexivity.
    - destruct (bytes_eqb k k') eqn:E.
      + apply bytes_eqb_eq in E. subst k'. intros [H|H]; [right; subst kv; split; reflexivity | left; right; exact H].
      + intros [H|H]; [left; left; exact H|]. destruct (IH H); [left; right; assumption | right; assumption].
  Qed.

  Theorem stored_migrations_valid : forall ms l kv, In kv (post_migrations verify gk l ms) ->
    In kv l \/ (In (snd kv) ms /\ fst kv = mg_equipment (snd kv) /\ validate_migration verify gk (snd kv) = true).
  Proof.
    unfold post_migrations. induction ms as [|m ms IH]; intros l kv H; cbn [fold_left] in H; [left; exact H|].
    destruct (IH _ _ H) as [A|(A & B & C)]; [|right; repeat split; try assumption; right; exact A].
    unfold post_migration in A. destruct (validate_migration verify gk m) eqn:V; [|left; exact A].
    apply migs_set_in in A as [A|[A B]]; [left; exact A|].
    right. rewrite A. repeat split; [left; reflexivity | exact B | exact V].
  Qed.
End Lemmas.
