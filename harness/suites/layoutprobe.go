package suites

// T3, second translator: when the go/ast walker does not understand the idiom a fixed-width codec
// function is written in, its layout is recovered from the COMPILED function instead, by probing
// every bit: an encoder is called on the zero value (constant bytes = prefix) and on values with a
// single bit of a single field set (exactly one output bit may differ, and the bits of a field must
// fill consecutive bytes in little-endian order); a decoder is called on buffers with a single bit
// set (exactly one field bit may be set in the result).  A value with every field filled at random
// must then be encoded / decoded exactly as the recovered layout says.  Anything else is reported
// as "not understood", like an unknown statement of the walker.

import (
	"encoding/binary"
	"fmt"
	"math"
	"reflect"

	"github.com/glowlabs-org/gca-backend/glow"
	"github.com/glowlabs-org/gca-backend/server"
)

type lyCodec struct {
	typ reflect.Type
	enc func(v reflect.Value) []byte          // nil for decoders
	dec func(b []byte) (reflect.Value, error) // nil for encoders
}

var lyCodecs = map[string]lyCodec{
	"EquipmentReport_SigningBytes": {typ: reflect.TypeOf(glow.EquipmentReport{}), enc: func(v reflect.Value) []byte {
		return v.Interface().(glow.EquipmentReport).SigningBytes()
	}},
	"EquipmentReport_Serialize": {typ: reflect.TypeOf(glow.EquipmentReport{}), enc: func(v reflect.Value) []byte {
		return v.Interface().(glow.EquipmentReport).Serialize()
	}},
	"DeserializeReport": {typ: reflect.TypeOf(glow.EquipmentReport{}), dec: func(b []byte) (reflect.Value, error) {
		r, err := glow.DeserializeReport(b)
		return reflect.ValueOf(r), err
	}},
	"EquipmentAuthorization_Serialize": {typ: reflect.TypeOf(glow.EquipmentAuthorization{}), enc: func(v reflect.Value) []byte {
		ea := v.Interface().(glow.EquipmentAuthorization)
		return ea.Serialize()
	}},
	"DeserializeEquipmentAuthorization": {typ: reflect.TypeOf(glow.EquipmentAuthorization{}), dec: func(b []byte) (reflect.Value, error) {
		r, err := glow.DeserializeEquipmentAuthorization(b)
		return reflect.ValueOf(r), err
	}},
	"GCARegistration_SigningBytes": {typ: reflect.TypeOf(server.GCARegistration{}), enc: func(v reflect.Value) []byte {
		gr := v.Interface().(server.GCARegistration)
		return gr.SigningBytes()
	}},
}

// field bit access ---------------------------------------------------------------------------

func lyFieldBits(f reflect.Value) int {
	switch f.Kind() {
	case reflect.Uint32:
		return 32
	case reflect.Uint64, reflect.Float64:
		return 64
	case reflect.Array:
		if f.Type().Elem().Kind() == reflect.Uint8 {
			return 8 * f.Len()
		}
	}
	return -1
}

func lySetBit(f reflect.Value, j int) {
	switch f.Kind() {
	case reflect.Uint32, reflect.Uint64:
		f.SetUint(f.Uint() | 1<<uint(j))
	case reflect.Float64:
		f.SetFloat(math.Float64frombits(math.Float64bits(f.Float()) | 1<<uint(j)))
	case reflect.Array:
		e := f.Index(j / 8)
		e.SetUint(e.Uint() | 1<<uint(j%8))
	}
}

func lyGetBit(f reflect.Value, j int) bool {
	switch f.Kind() {
	case reflect.Uint32, reflect.Uint64:
		return f.Uint()>>uint(j)&1 == 1
	case reflect.Float64:
		return math.Float64bits(f.Float())>>uint(j)&1 == 1
	case reflect.Array:
		return f.Index(j/8).Uint()>>uint(j%8)&1 == 1
	}
	return false
}

func lyKind(f reflect.Value) string {
	switch f.Kind() {
	case reflect.Float64:
		return "KFloatLE"
	case reflect.Array:
		return "KBytes"
	}
	return "KUintLE"
}

// lyProbe recovers the layout of the named codec function from the compiled code.
func lyProbe(name string) (res lyResult) {
	res.name = name
	c, ok := lyCodecs[name]
	if !ok {
		res.unknown = append(res.unknown, "probe: no compiled entry point for "+name)
		return
	}
	defer func() {
		if e := recover(); e != nil {
			res.fields = nil
			res.unknown = append(res.unknown, fmt.Sprint("probe: the function panics: ", e))
		}
	}()
	if c.enc != nil {
		zero := reflect.New(c.typ).Elem()
		base := c.enc(zero)
		res.size = len(base)
		// constant bytes: a prefix
		n := 0
		for n < len(base) && base[n] != 0 {
			n++
		}
		for _, b := range base[n:] {
			if b != 0 {
				res.unknown = append(res.unknown, "probe: the encoding of the zero value has non-zero bytes that are not a leading prefix")
				return
			}
		}
		if n > 0 {
			res.fields = append(res.fields, lyField{0, n, "prefix", fmt.Sprintf("(KPrefix %s)", coqStr(string(base[:n])))})
		}
		for i := 0; i < c.typ.NumField(); i++ {
			nb := lyFieldBits(zero.Field(i))
			if nb < 0 {
				res.unknown = append(res.unknown, "probe: field "+c.typ.Field(i).Name+" has a type the probe does not handle")
				return
			}
			off, absent := -1, 0
			for j := 0; j < nb; j++ {
				v := reflect.New(c.typ).Elem()
				lySetBit(v.Field(i), j)
				out := c.enc(v)
				if len(out) != len(base) {
					res.unknown = append(res.unknown, "probe: the output length depends on the value")
					return
				}
				pos, cnt := -1, 0
				for q := 0; q < 8*len(out); q++ {
					if (out[q/8]^base[q/8])>>uint(q%8)&1 == 1 {
						pos = q
						cnt++
					}
				}
				if cnt == 0 {
					absent++
					continue
				}
				if cnt != 1 || pos%8 != j%8 {
					res.unknown = append(res.unknown, fmt.Sprintf("probe: bit %d of field %s changes %d output bits (last at bit %d)", j, c.typ.Field(i).Name, cnt, pos))
					return
				}
				if o := pos/8 - j/8; off == -1 {
					off = o
				} else if o != off {
					res.unknown = append(res.unknown, fmt.Sprintf("probe: the bytes of field %s are not consecutive little-endian (bit %d is in byte %d)", c.typ.Field(i).Name, j, pos/8))
					return
				}
			}
			if absent == nb {
				continue // the field is not part of this encoding (e.g. the signature in signing bytes)
			}
			if absent != 0 {
				res.unknown = append(res.unknown, fmt.Sprintf("probe: %d of the %d bits of field %s do not reach the output", absent, nb, c.typ.Field(i).Name))
				return
			}
			res.fields = append(res.fields, lyField{off, nb / 8, c.typ.Field(i).Name, lyKind(zero.Field(i))})
		}
		// a value with every field filled: the output is exactly what the recovered layout says
		for round := 0; round < 8; round++ {
			v := reflect.New(c.typ).Elem()
			lyFill(v, uint64(round)*0x9e3779b97f4a7c15+12345)
			want := append([]byte{}, base...)
			for _, f := range res.fields {
				if f.name == "prefix" {
					continue
				}
				fv := v.FieldByName(f.name)
				for j := 0; j < 8*f.width; j++ {
					if lyGetBit(fv, j) {
						want[f.off+j/8] |= 1 << uint(j%8)
					}
				}
			}
			if got := c.enc(v); string(got) != string(want) {
				res.unknown = append(res.unknown, "probe: a value with all fields set is not encoded as the bit-by-bit layout says (the encoder is not a fixed placement of the fields)")
				return
			}
		}
		return
	}
	// decoder: find the accepted length first (the documented sizes are tried, then a scan)
	size := -1
	for n := 1; n <= 512; n++ {
		if _, err := c.dec(make([]byte, n)); err == nil {
			size = n
			break
		}
	}
	if size < 0 {
		res.unknown = append(res.unknown, "probe: the decoder accepts no all-zero input of 1..512 bytes")
		return
	}
	res.size = size
	z, _ := c.dec(make([]byte, size))
	if !z.IsZero() {
		res.unknown = append(res.unknown, "probe: the all-zero input does not decode to the zero value")
		return
	}
	type place struct{ field, bit int }
	where := make([]place, 8*size)
	for q := 0; q < 8*size; q++ {
		b := make([]byte, size)
		b[q/8] = 1 << uint(q%8)
		v, err := c.dec(b)
		if err != nil {
			res.unknown = append(res.unknown, fmt.Sprintf("probe: an input with only bit %d set is refused", q))
			return
		}
		cnt := 0
		for i := 0; i < c.typ.NumField(); i++ {
			nb := lyFieldBits(v.Field(i))
			for j := 0; j < nb; j++ {
				if lyGetBit(v.Field(i), j) {
					where[q] = place{i, j}
					cnt++
				}
			}
		}
		if cnt != 1 {
			res.unknown = append(res.unknown, fmt.Sprintf("probe: input bit %d sets %d bits of the decoded value", q, cnt))
			return
		}
	}
	for q := 0; q < 8*size; {
		p := where[q]
		f := reflect.New(c.typ).Elem().Field(p.field)
		nb := lyFieldBits(f)
		if p.bit != 0 || q%8 != 0 || q+nb > 8*size {
			res.unknown = append(res.unknown, fmt.Sprintf("probe: input bit %d is bit %d of field %s (not the start of a field)", q, p.bit, c.typ.Field(p.field).Name))
			return
		}
		for j := 0; j < nb; j++ {
			if where[q+j] != (place{p.field, j}) {
				res.unknown = append(res.unknown, fmt.Sprintf("probe: field %s is not read from consecutive little-endian bytes", c.typ.Field(p.field).Name))
				return
			}
		}
		res.fields = append(res.fields, lyField{q / 8, nb / 8, c.typ.Field(p.field).Name, lyKind(f)})
		q += nb
	}
	for round := 0; round < 8; round++ {
		b := make([]byte, size)
		s := uint64(round)*0x9e3779b97f4a7c15 + 777
		for i := range b {
			s = s*6364136223846793005 + 1442695040888963407
			b[i] = byte(s >> 56)
		}
		// avoid NaN patterns in float fields: the comparison below is by bits, NaN payloads survive on amd64
		v, err := c.dec(b)
		if err != nil {
			res.unknown = append(res.unknown, "probe: a random input of the accepted length is refused")
			return
		}
		for _, f := range res.fields {
			fv := v.FieldByName(f.name)
			for j := 0; j < 8*f.width; j++ {
				if lyGetBit(fv, j) != (b[f.off+j/8]>>uint(j%8)&1 == 1) {
					res.unknown = append(res.unknown, "probe: a random input is not decoded as the bit-by-bit layout says")
					return
				}
			}
		}
	}
	return
}

func lyFill(v reflect.Value, s uint64) {
	next := func() uint64 {
		s = s*6364136223846793005 + 1442695040888963407
		return s
	}
	for i := 0; i < v.NumField(); i++ {
		f := v.Field(i)
		switch f.Kind() {
		case reflect.Uint32:
			f.SetUint(next() >> 32)
		case reflect.Uint64:
			f.SetUint(next())
		case reflect.Float64:
			u := next()
			if u&0x7ff0000000000000 == 0x7ff0000000000000 {
				u &^= 1 << 62 // not NaN/Inf
			}
			f.SetFloat(math.Float64frombits(u))
		case reflect.Array:
			for k := 0; k < f.Len(); k++ {
				f.Index(k).SetUint(next() >> 56)
			}
		}
	}
}

func trimStr(s string) string {
	if n := len("%string"); len(s) > n && s[len(s)-n:] == "%string" {
		return s[:len(s)-n]
	}
	return s
}

var _ = binary.LittleEndian
