(* C13 -- Concurrent operation is race-free, deadlock-free and equals a sequential run.
   (a) lock discipline on ALL paths of the lock/IO skeletons regenerated from the source;
   (b) every critical section is safe for arbitrary captured arguments from any invariant
       state, so every interleaving at critical-section boundaries is covered; report
       deliveries commute (C02).  Statements only. *)
From Coq Require Import ZArith List Bool String Permutation.
From GCA Require Import Wrap Bytes Codec Amap Timeslot Server ServerInv ServerDisk ServerReach_lemmas ServerFull_lemmas ServerC02_lemmas
                        Skel SkelSpec Skel_lemmas SkelObligations.
From GCAgen Require SkelServer.
Import ListNotations.
Open Scope Z_scope.

(* (a) ---------------------------------------------------------------------- *)
Theorem c13_translation_complete :
  SkelServer.unknown_statements = []
  /\ pair_eqb SkelServer.source_lock_calls SkelServer.skeleton_lock_nodes = true
  /\ fields_covered server_fields server_mutexes SkelServer.declared_fields = true
  /\ static_writers_ok server_fields server_fns SkelServer.field_writers = true
  /\ ctor_facts_ok server_fns SkelServer.call_edges = true.
Proof. exact skel_server_translated. Qed.

Theorem c13_lock_discipline_check : check_scope server_env = true.
Proof. exact skel_server_ok. Qed.

Theorem c13_lock_discipline :
  forall f, In f server_fns -> in_scope server_env f = true ->
  forall e, In e (entries (c_kind (f_con f))) ->
  forall u, fn_run server_env f e u ->
    match u with
    | UViol _ => False
    | UPanic => c_panics (f_con f) = true
    | UDie => True
    | UOk => True
    end.
Proof. exact server_paths_disciplined. Qed.

(* (b) ---------------------------------------------------------------------- *)
Section C13.
  Variable verify : bytes -> bytes -> bytes -> bool.
  Variable sign : bytes -> bytes -> bytes.
  Variable stats_sb : list devstat -> Z -> bytes.

  (* any schedule of critical sections, with arbitrary captured arguments (e.g. the impact job's
     device id captured before the device was banned), keeps the invariant and never panics *)
  Theorem c13_sections_safe ops st : Inv verify st -> Forall op_ok ops ->
    Inv verify (Server.run verify sign stats_sb st ops) /\
    Forall (fun o => o <> Server.Panic) (outs verify sign stats_sb st ops).
  Proof. exact (run_inv verify sign stats_sb ops st). Qed.

  (* the outcome of delivering a multiset of reports to a slot does not depend on arrival order *)
  Theorem c13_order_independent cap rs rs' : Forall valid_power rs -> Permutation rs rs' ->
    r_p (fold_left (slot_step cap) rs blank_report) = r_p (fold_left (slot_step cap) rs' blank_report).
  Proof. exact (order_independent cap rs rs'). Qed.
End C13.
