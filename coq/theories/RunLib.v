(* Helpers shared by the *Run.v files, which evaluate the executable model on
   the histories the harness ran against the implementation. *)
From Coq Require Import ZArith List Bool String Ascii.
From Coq Require Export Uint63.
Import ListNotations.

Definition opt_eqb {A} (eqb : A -> A -> bool) (a b : option A) : bool :=
  match a, b with
  | Some x, Some y => eqb x y
  | None, None => true
  | _, _ => false
  end.

Fixpoint list_eqb {A} (eqb : A -> A -> bool) (a b : list A) : bool :=
  match a, b with
  | [], [] => true
  | x :: a', y :: b' => eqb x y && list_eqb eqb a' b'
  | _, _ => false
  end.

(* indices (from 0) of the cases the predicate rejects *)
Fixpoint bad_indices_from {A} (ok : A -> bool) (i : nat) (l : list A) : list nat :=
  match l with
  | [] => []
  | x :: l' => if ok x then bad_indices_from ok (S i) l' else i :: bad_indices_from ok (S i) l'
  end.
Definition bad_indices {A} (ok : A -> bool) (l : list A) : list nat := bad_indices_from ok 0 l.

(* ---- hex literals -> bytes ---------------------------------------------- *)
Definition hexval (c : ascii) : option N :=
  let n := N_of_ascii c in
  if (48 <=? n)%N && (n <=? 57)%N then Some (n - 48)%N
  else if (97 <=? n)%N && (n <=? 102)%N then Some (n - 87)%N
  else if (65 <=? n)%N && (n <=? 70)%N then Some (n - 55)%N
  else None.

Fixpoint hx_aux (s : string) : list Byte.byte :=
  match s with
  | String a (String b r) =>
      match hexval a, hexval b with
      | Some x, Some y =>
          match Byte.of_N (x * 16 + y) with Some c => c :: hx_aux r | None => [] end
      | _, _ => []
      end
  | _ => []
  end.
Definition hx (s : string) : list Byte.byte := hx_aux s.

(* ---- fast byte literals --------------------------------------------------
   String and Z literals cost ~10 ms per 80 bytes to parse; primitive 63-bit
   integers are ~20x cheaper.  [hb last chunks]: every chunk holds 7 bytes
   big-endian, the final one holds [last] (1..7) bytes. *)
Definition byte_of_int (x : int) : Byte.byte :=
  match Byte.of_N (Z.to_N (Uint63.to_Z (Uint63.land x 255))) with Some b => b | None => Byte.x00 end.
Fixpoint chunk_bytes (k : nat) (c : int) (acc : list Byte.byte) : list Byte.byte :=
  match k with
  | O => acc
  | S k' => chunk_bytes k' (Uint63.lsr c 8) (byte_of_int c :: acc)
  end.
Fixpoint hb (last : nat) (cs : list int) : list Byte.byte :=
  match cs with
  | [] => []
  | [c] => chunk_bytes last c []
  | c :: cs' => chunk_bytes 7 c (hb last cs')
  end.
