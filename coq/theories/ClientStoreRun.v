(* Evaluation of the C09 models on the histories the harness ran against the
   real client (suites `history` and `meter`). *)
From Coq Require Import ZArith List Bool.
From GCA Require Import Wrap Bytes RunLib ClientHistory ClientReports.
Import ListNotations.
Open Scope Z_scope.

(* ---- suite history: (initial file, ops (kind,t,v), opened?, results, final file) *)
Definition hist_case := (bytes * list (Z * Z * Z) * bool * list (bool * Z) * bytes)%type.

Definition to_hop (o : Z * Z * Z) : hop :=
  let '(k, t, v) := o in if k =? 0 then HSave t v else HLoad t.

Definition hres_eqb (a b : bool * Z) : bool := Bool.eqb (fst a) (fst b) && (snd a =? snd b).

Definition hist_case_ok (c : hist_case) : bool :=
  let '(h0, ops, opened, outs, final) := c in
  match hist_origin h0 with
  | None => negb opened
  | Some o =>
      opened &&
      (let '(h, rs) := hops_run o h0 (map to_hop ops) in
       bytes_eqb h final && list_eqb hres_eqb rs outs)
  end.
Definition hist_mismatches := bad_indices hist_case_ok.

(* ---- suite meter: (initial history file, events, emissions observed per event, final history file)
   event = (kind, records (slot, energy), from, n):
     kind 0 = tick, 1 = restart, 2 = the sync loop scans slots from .. from+n-1 (retransmissions),
     kind 3+k = one tick followed by 1+k such scans (their datagrams are collected together) *)
Definition meter_ev := (Z * list (Z * Z) * Z * Z)%type.
Definition meter_case := (bytes * list meter_ev * list (list (Z * Z)) * bytes)%type.

Fixpoint resend_range (from : Z) (n : nat) : list ev :=
  match n with O => [] | S n' => Resend from :: resend_range (from + 1) n' end.

Definition to_evs (e : meter_ev) : list ev :=
  let '(k, recs, from, n) := e in
  let rs := map (fun p => {| rc_ts := fst p; rc_en := snd p |}) recs in
  if k =? 0 then [Tick rs] else if k =? 1 then [Restart rs]
  else if k =? 2 then resend_range from (Z.to_nat n)
  else Tick rs :: concat (repeat (resend_range from (Z.to_nat n)) (Z.to_nat (k - 2))).

Definition em_eqb (a b : Z * Z) : bool := (fst a =? fst b) && (snd a =? snd b).

(* emissions of each event group separately *)
Fixpoint meter_run (origin : Z) (x : trace) (evs : list (list ev)) : trace * list (list (Z * Z)) :=
  match evs with
  | [] => (x, [])
  | g :: evs' =>
      let x1 := fold_left (step origin) g {| tr_st := tr_st x; tr_out := []; tr_acc := [] |} in
      let '(x2, outs) := meter_run origin x1 evs' in (x2, tr_out x1 :: outs)
  end.

Definition meter_case_ok (c : meter_case) : bool :=
  let '(h0, evs, outs, final) := c in
  match hist_origin h0 with
  | None => false
  | Some o =>
      let '(x, os) := meter_run o {| tr_st := {| cs_hist := h0; cs_latest := 0 |}; tr_out := []; tr_acc := [] |}
                                (map to_evs evs) in
      bytes_eqb (cs_hist (tr_st x)) final && list_eqb (list_eqb em_eqb) os outs
  end.
Definition meter_mismatches := bad_indices meter_case_ok.
