(* Theorems about the variable-length codecs (CodecServers.v): authorized server,
   migration order, the client's server map; the pairwise disjointness of the six
   signing-byte languages. *)
From Coq Require Import ZArith List Bool String Lia Permutation.
From GCA Require Import Bytes Bytes_lemmas Codec Layout_lemmas Codec_lemmas CodecStats CodecStats_lemmas CodecServers.
Import ListNotations.
Open Scope Z_scope.
Notation length := List.length.

(* ---- the sequential reader --------------------------------------------------------------- *)
Lemma take_app n (a r : bytes) : length a = n -> take n (a ++ r) = Some (a, r).
Proof.
  intros H. unfold take. rewrite app_length.
  destruct (length a + length r <? n)%nat eqn:E; [apply Nat.ltb_lt in E; lia|].
  rewrite firstn_app_len, skipn_app_len by exact H. reflexivity.
Qed.
Lemma take_sound n b a r : take n b = Some (a, r) -> b = a ++ r /\ length a = n.
Proof.
  unfold take. destruct (length b <? n)%nat eqn:E; [discriminate|]. apply Nat.ltb_ge in E.
  intros H. injection H as <- <-. split; [symmetry; apply firstn_skipn | rewrite firstn_length; lia].
Qed.
Lemma take_none n b : take n b = None -> (length b < n)%nat.
Proof. unfold take. destruct (length b <? n)%nat eqn:E; [intros _; apply Nat.ltb_lt; exact E | discriminate]. Qed.

Lemma pow256_1 : 256 ^ Z.of_nat 1 = 256. Proof. reflexivity. Qed.
Lemma le_dec_byte z : 0 <= z < 256 -> le_dec [z2b z] = z.
Proof. intros H. change [z2b z] with (le_enc 1 z). apply le_dec_enc_small. rewrite pow256_1. exact H. Qed.
Lemma byte_of_len1 (l : bytes) : length l = 1%nat -> [z2b (le_dec l)] = l.
Proof. intros H. change [z2b (le_dec l)] with (le_enc 1 (le_dec l)). apply le_enc_dec_len. exact H. Qed.

Lemma bool_byte_0 x : bytes_eqb [bool_byte x] [Byte.x00] = negb x.
Proof. destruct x; reflexivity. Qed.
Lemma bool_byte_1 x : bytes_eqb [bool_byte x] [Byte.x01] = x.
Proof. destruct x; reflexivity. Qed.

(* ==== AuthorizedServer ====================================================================== *)
Lemma aserver_body_length s : length (as_key s) = 32%nat ->
  length (aserver_body s) = (40 + length (as_loc s))%nat.
Proof.
  intros Hk. unfold aserver_body. rewrite !app_length, pad_length, !le_enc_length. cbn [length]. lia.
Qed.
Theorem aserver_serialize_length s : length (as_key s) = 32%nat ->
  length (aserver_serialize s) = (104 + length (as_loc s))%nat.
Proof. intros Hk. unfold aserver_serialize. rewrite app_length, aserver_body_length, pad_length by exact Hk. lia. Qed.

Theorem aserver_prefix_roundtrip s rest : aserver_wf s ->
  aserver_decode_prefix (aserver_serialize s ++ rest) = DOk s (length (aserver_serialize s)).
Proof.
  intros (Hk & Hl & Hh & Ht & Hu & Hs). rewrite aserver_serialize_length by exact Hk.
  destruct s as [k bn loc h t u sg]. cbn [as_key as_banned as_loc as_http as_tcp as_udp as_sig] in *.
  unfold aserver_serialize, aserver_body, aserver_decode_prefix.
  cbn [as_key as_banned as_loc as_http as_tcp as_udp as_sig].
  rewrite !pad_exact by assumption. rewrite <- !app_assoc.
  rewrite (take_app 32) by exact Hk.
  rewrite (take_app 1) by reflexivity.
  rewrite (take_app 1) by reflexivity.
  rewrite le_dec_byte by lia. rewrite Nat2Z.id.
  rewrite (take_app (length loc)) by reflexivity.
  rewrite !(take_app 2) by apply le_enc_length.
  rewrite (take_app 64) by exact Hs.
  rewrite bool_byte_0, bool_byte_1. rewrite !le_dec_enc_small by (rewrite pow256_2; assumption).
  destruct bn; reflexivity.
Qed.

Theorem aserver_roundtrip s : aserver_wf s -> aserver_decode (aserver_serialize s) = Some s.
Proof.
  intros H. unfold aserver_decode. rewrite <- (app_nil_r (aserver_serialize s)) at 1.
  rewrite aserver_prefix_roundtrip by exact H. rewrite Nat.eqb_refl. reflexivity.
Qed.

(* an accepted input starts with the serialization of the (well-formed) value returned *)
Theorem aserver_prefix_sound b s n : aserver_decode_prefix b = DOk s n ->
  exists rest, b = aserver_serialize s ++ rest /\ aserver_wf s /\ n = length (aserver_serialize s).
Proof.
  unfold aserver_decode_prefix.
  destruct (take 32 b) as [[key b1]|] eqn:T1; [|discriminate].
  destruct (take 1 b1) as [[fl b2]|] eqn:T2; [|discriminate].
  destruct (take 1 b2) as [[lb b3]|] eqn:T3; [|discriminate].
  destruct (take (Z.to_nat (le_dec lb)) b3) as [[loc b4]|] eqn:T4; [|discriminate].
  destruct (take 2 b4) as [[h b5]|] eqn:T5; [|discriminate].
  destruct (take 2 b5) as [[t b6]|] eqn:T6; [|discriminate].
  destruct (take 2 b6) as [[u b7]|] eqn:T7; [|discriminate].
  destruct (take 64 b7) as [[sg b8]|] eqn:T8; [|discriminate].
  destruct (bytes_eqb fl [Byte.x00] || bytes_eqb fl [Byte.x01]) eqn:Ef; [|discriminate].
  intros H. injection H as <- <-.
  apply take_sound in T1 as (-> & L1), T2 as (-> & L2), T3 as (-> & L3), T4 as (-> & L4),
    T5 as (-> & L5), T6 as (-> & L6), T7 as (-> & L7), T8 as (-> & L8).
  pose proof (le_dec_range_len 1 lb L3) as Rl. rewrite pow256_1 in Rl.
  exists b8.
  assert (Es : aserver_serialize
                 {| as_key := key; as_banned := bytes_eqb fl [Byte.x01]; as_loc := loc; as_http := le_dec h;
                    as_tcp := le_dec t; as_udp := le_dec u; as_sig := sg |} =
               key ++ fl ++ lb ++ loc ++ h ++ t ++ u ++ sg).
  { unfold aserver_serialize, aserver_body. cbn [as_key as_banned as_loc as_http as_tcp as_udp as_sig].
    rewrite !pad_exact by assumption. rewrite !(le_enc_dec_len 2) by assumption.
    rewrite L4, Z2Nat.id by lia. rewrite byte_of_len1 by exact L3.
    replace [bool_byte (bytes_eqb fl [Byte.x01])] with fl.
    - rewrite <- !app_assoc. reflexivity.
    - apply orb_prop in Ef as [E|E]; apply bytes_eqb_eq in E; subst fl; reflexivity. }
  split; [|split].
  - rewrite Es. rewrite <- !app_assoc. reflexivity.
  - unfold aserver_wf. cbn [as_key as_banned as_loc as_http as_tcp as_udp as_sig].
    rewrite <- pow256_2. repeat split; try assumption; try lia;
      try (apply (le_dec_range_len 2); assumption).
  - rewrite Es. rewrite !app_length. lia.
Qed.

Theorem aserver_decode_encode b s : aserver_decode b = Some s -> aserver_serialize s = b /\ aserver_wf s.
Proof.
  unfold aserver_decode. destruct (aserver_decode_prefix b) as [s' n| | |] eqn:E; try discriminate.
  destruct (Nat.eqb n (length b)) eqn:En; [|discriminate]. intros H. injection H as ->.
  apply Nat.eqb_eq in En. apply aserver_prefix_sound in E as (rest & -> & W & Hn). split; [|exact W].
  rewrite app_length in En. assert (length rest = 0%nat) by lia.
  destruct rest; [symmetry; apply app_nil_r | discriminate].
Qed.

(* every input whose length is not 104 + its own length byte is refused *)
Theorem aserver_length_refused b s : aserver_decode b = Some s -> length b = (104 + length (as_loc s))%nat.
Proof.
  intros H. apply aserver_decode_encode in H as [<- W]. apply aserver_serialize_length. exact (proj1 W).
Qed.

Theorem aserver_serialize_injective s1 s2 : aserver_wf s1 -> aserver_wf s2 ->
  aserver_serialize s1 = aserver_serialize s2 -> s1 = s2.
Proof.
  intros H1 H2 E. pose proof (aserver_roundtrip s1 H1) as R. rewrite E, aserver_roundtrip in R by exact H2. congruence.
Qed.

Definition aserver_unsigned (s : aserver) : aserver :=
  {| as_key := as_key s; as_banned := as_banned s; as_loc := as_loc s; as_http := as_http s;
     as_tcp := as_tcp s; as_udp := as_udp s; as_sig := zeros 64 |}.

Theorem aserver_signing_layout s : length (as_key s) = 32%nat ->
  aserver_signing_bytes s =
    ascii_bytes "AuthorizedServer" ++ firstn (length (aserver_serialize s) - 64) (aserver_serialize s).
Proof.
  intros Hk. unfold aserver_signing_bytes, aserver_serialize. f_equal.
  rewrite app_length, pad_length. replace (length (aserver_body s) + 64 - 64)%nat with (length (aserver_body s)) by lia.
  rewrite firstn_app_exact. reflexivity.
Qed.

Theorem aserver_signing_injective s1 s2 : aserver_wf s1 -> aserver_wf s2 ->
  aserver_signing_bytes s1 = aserver_signing_bytes s2 -> aserver_unsigned s1 = aserver_unsigned s2.
Proof.
  intros H1 H2 E. unfold aserver_signing_bytes in E. apply app_inv_head in E.
  apply aserver_serialize_injective.
  - destruct H1 as (? & ? & ? & ? & ? & ?). unfold aserver_wf, aserver_unsigned.
    cbn [as_key as_banned as_loc as_http as_tcp as_udp as_sig]. rewrite zeros_length. tauto.
  - destruct H2 as (? & ? & ? & ? & ? & ?). unfold aserver_wf, aserver_unsigned.
    cbn [as_key as_banned as_loc as_http as_tcp as_udp as_sig]. rewrite zeros_length. tauto.
  - unfold aserver_serialize. change (aserver_body (aserver_unsigned s1)) with (aserver_body s1).
    change (aserver_body (aserver_unsigned s2)) with (aserver_body s2). rewrite E. reflexivity.
Qed.

(* beyond 255 bytes the length byte wraps: the record no longer decodes back *)
Definition long_loc_server : aserver :=
  {| as_key := zeros 32; as_banned := false; as_loc := zeros 256; as_http := 0; as_tcp := 0; as_udp := 0;
     as_sig := zeros 64 |}.
Theorem aserver_roundtrip_beyond_255_refuted :
  exists s, length (as_key s) = 32%nat /\ length (as_loc s) = 256%nat /\ length (as_sig s) = 64%nat /\
            aserver_decode (aserver_serialize s) <> Some s.
Proof. exists long_loc_server. repeat split; try reflexivity. vm_compute. discriminate. Qed.

(* ==== EquipmentMigration ===================================================================== *)
Lemma aservers_encode_length l : Forall aserver_wf l -> (104 * length l <= length (aservers_encode l))%nat.
Proof.
  induction 1 as [|s l Hs Hl IH]; [cbn; lia|].
  cbn [aservers_encode length]. rewrite app_length, aserver_serialize_length by exact (proj1 Hs). lia.
Qed.

Lemma aservers_roundtrip l : forall fuel sg, Forall aserver_wf l -> length sg = 64%nat -> (length l < fuel)%nat ->
  aservers_decode fuel (aservers_encode l ++ sg) = DOk (l, sg) (length (aservers_encode l)).
Proof.
  induction l as [|s l IH]; intros fuel sg Hwf Hsg Hf.
  - destruct fuel; [lia|]. cbn [aservers_decode aservers_encode app]. rewrite Hsg. reflexivity.
  - destruct fuel as [|fuel]; [cbn in Hf; lia|]. inversion Hwf as [|? ? Hs Hl]; subst.
    cbn [aservers_decode aservers_encode].
    pose proof (aservers_encode_length l Hl) as Hlen.
    destruct (Nat.eqb (length ((aserver_serialize s ++ aservers_encode l) ++ sg)) 64) eqn:E64.
    { apply Nat.eqb_eq in E64. rewrite !app_length, aserver_serialize_length in E64 by exact (proj1 Hs). lia. }
    rewrite <- app_assoc. rewrite aserver_prefix_roundtrip by exact Hs.
    rewrite skipn_app_exact. rewrite IH; [|assumption|assumption|cbn in Hf; lia].
    rewrite app_length. reflexivity.
Qed.

Theorem migration_roundtrip m : migration_wf m ->
  migration_decode (migration_serialize m) = DOk m (length (migration_serialize m)).
Proof.
  intros (He & Hg & Hi & Hs & Hsg). unfold migration_decode, migration_serialize, migration_body.
  rewrite !pad_exact by assumption. rewrite <- !app_assoc.
  rewrite (take_app 32) by exact He. rewrite (take_app 32) by exact Hg. rewrite (take_app 4) by apply le_enc_length.
  rewrite aservers_roundtrip; [|exact Hs|exact Hsg|].
  - rewrite le_dec_enc_small by (rewrite pow256_4; exact Hi). destruct m; reflexivity.
  - pose proof (aservers_encode_length _ Hs). rewrite app_length. lia.
Qed.

Lemma aservers_sound : forall fuel b l sg n, aservers_decode fuel b = DOk (l, sg) n ->
  b = aservers_encode l ++ sg /\ Forall aserver_wf l /\ length sg = 64%nat.
Proof.
  induction fuel as [|fuel IH]; intros b l sg n H; [discriminate|].
  cbn [aservers_decode] in H. destruct (Nat.eqb (length b) 64) eqn:E64.
  - injection H as <- <- <-. apply Nat.eqb_eq in E64. cbn. auto.
  - destruct (aserver_decode_prefix b) as [s k| | |] eqn:Ed; try discriminate.
    destruct (aservers_decode fuel (skipn k b)) as [[l' sg'] k'| | |] eqn:Er; try discriminate.
    injection H as <- <- <-. apply aserver_prefix_sound in Ed as (rest & -> & W & ->).
    rewrite skipn_app_exact in Er. apply IH in Er as (-> & Wl & Hsg).
    cbn [aservers_encode]. rewrite <- app_assoc. auto.
Qed.

Theorem migration_decode_sound b m n : migration_decode b = DOk m n ->
  migration_serialize m = b /\ migration_wf m /\ n = length b.
Proof.
  unfold migration_decode.
  destruct (take 32 b) as [[eq b1]|] eqn:T1; [|discriminate].
  destruct (take 32 b1) as [[gca b2]|] eqn:T2; [|discriminate].
  destruct (take 4 b2) as [[id b3]|] eqn:T3; [|discriminate].
  destruct (aservers_decode (S (length b3)) b3) as [[l sg] k| | |] eqn:Ea; try discriminate.
  intros H. injection H as <- <-.
  apply take_sound in T1 as (-> & L1), T2 as (-> & L2), T3 as (-> & L3).
  apply aservers_sound in Ea as (-> & Wl & Hsg).
  unfold migration_serialize, migration_body, migration_wf. cbn [m_equip m_newgca m_newid m_servers m_sig].
  rewrite !pad_exact by assumption. rewrite (le_enc_dec_len 4) by exact L3. rewrite <- !app_assoc.
  repeat split; try assumption; try reflexivity.
  - apply (le_dec_range_len 4) in L3. lia.
  - rewrite <- pow256_4. apply (le_dec_range_len 4). exact L3.
Qed.

Theorem migration_serialize_injective m1 m2 : migration_wf m1 -> migration_wf m2 ->
  migration_serialize m1 = migration_serialize m2 -> m1 = m2.
Proof.
  intros H1 H2 E. pose proof (migration_roundtrip m1 H1) as R. rewrite E, migration_roundtrip in R by exact H2. congruence.
Qed.

Theorem migration_signing_layout m :
  migration_signing_bytes m =
    ascii_bytes "EquipmentMigration" ++ firstn (length (migration_serialize m) - 64) (migration_serialize m).
Proof.
  unfold migration_signing_bytes, migration_serialize. f_equal.
  rewrite app_length, pad_length. replace (length (migration_body m) + 64 - 64)%nat with (length (migration_body m)) by lia.
  rewrite firstn_app_exact. reflexivity.
Qed.

Theorem migration_signing_injective m1 m2 : migration_wf m1 -> migration_wf m2 ->
  migration_signing_bytes m1 = migration_signing_bytes m2 ->
  m_equip m1 = m_equip m2 /\ m_newgca m1 = m_newgca m2 /\ m_newid m1 = m_newid m2 /\ m_servers m1 = m_servers m2.
Proof.
  intros H1 H2 E. unfold migration_signing_bytes in E. apply app_inv_head in E.
  set (y1 := {| m_equip := m_equip m1; m_newgca := m_newgca m1; m_newid := m_newid m1; m_servers := m_servers m1; m_sig := zeros 64 |}).
  set (y2 := {| m_equip := m_equip m2; m_newgca := m_newgca m2; m_newid := m_newid m2; m_servers := m_servers m2; m_sig := zeros 64 |}).
  assert (Ey : y1 = y2).
  { apply migration_serialize_injective.
    - destruct H1 as (? & ? & ? & ? & ?). unfold migration_wf, y1. cbn [m_equip m_newgca m_newid m_servers m_sig]. rewrite zeros_length. tauto.
    - destruct H2 as (? & ? & ? & ? & ?). unfold migration_wf, y2. cbn [m_equip m_newgca m_newid m_servers m_sig]. rewrite zeros_length. tauto.
    - unfold migration_serialize. change (migration_body y1) with (migration_body m1).
      change (migration_body y2) with (migration_body m2). rewrite E. reflexivity. }
  unfold y1, y2 in Ey. injection Ey as E1 E2 E3 E4. auto.
Qed.

(* beyond 255 bytes two different orders share their signing bytes: one server with a
   256-byte location reads as two servers with locations of 0 and 152 bytes *)
Definition collide_loc : bytes :=
  zeros 102 ++ [Byte.x00; z2b 152] ++ zeros 152.
Definition collide_m1 : migration :=
  {| m_equip := zeros 32; m_newgca := zeros 32; m_newid := 0;
     m_servers := [ {| as_key := zeros 32; as_banned := false; as_loc := collide_loc; as_http := 0; as_tcp := 0;
                      as_udp := 0; as_sig := zeros 64 |} ];
     m_sig := zeros 64 |}.
Definition collide_m2 : migration :=
  {| m_equip := zeros 32; m_newgca := zeros 32; m_newid := 0;
     m_servers := [ {| as_key := zeros 32; as_banned := false; as_loc := []; as_http := 0; as_tcp := 0;
                      as_udp := 0; as_sig := zeros 64 |};
                    {| as_key := zeros 32; as_banned := false; as_loc := zeros 152; as_http := 0; as_tcp := 0;
                      as_udp := 0; as_sig := zeros 64 |} ];
     m_sig := zeros 64 |}.
Lemma collide_m2_wf : migration_wf collide_m2.
Proof.
  unfold migration_wf, collide_m2. cbn [m_equip m_newgca m_newid m_servers m_sig].
  repeat split; try reflexivity; try lia.
  repeat constructor; cbn; try lia; reflexivity.
Qed.
Theorem migration_signing_beyond_255_refuted :
  exists m1 m2, length (m_servers m1) <> length (m_servers m2) /\ migration_wf m2 /\
                migration_signing_bytes m1 = migration_signing_bytes m2.
Proof.
  exists collide_m1, collide_m2. split; [cbn; lia|]. split; [exact collide_m2_wf|].
  vm_compute. reflexivity.
Qed.

(* ==== the client's server map ================================================================ *)
Lemma centry_encode_length (e : centry) : length (fst e) = 32%nat ->
  length (centry_encode e) = (41 + length (cs_loc (snd e)))%nat.
Proof. intros Hk. unfold centry_encode. rewrite !app_length, pad_length, !le_enc_length. cbn [length]. lia. Qed.

Theorem centry_prefix_roundtrip (e : centry) rest : centry_wf e ->
  centry_decode_prefix (centry_encode e ++ rest) = DOk e (length (centry_encode e)).
Proof.
  intros (Hk & Hl & Hh & Ht & Hu). rewrite centry_encode_length by exact Hk.
  unfold centry_encode, centry_decode_prefix. rewrite pad_exact by exact Hk. rewrite <- !app_assoc.
  rewrite (take_app 32) by exact Hk. rewrite (take_app 1) by reflexivity.
  rewrite (take_app 2) by apply le_enc_length.
  rewrite le_dec_enc_small by (rewrite pow256_2; change (2^16) with 65536; lia). rewrite Nat2Z.id.
  rewrite (take_app (length (cs_loc (snd e)))) by reflexivity.
  rewrite !(take_app 2) by apply le_enc_length.
  rewrite bool_byte_0, negb_involutive. rewrite !le_dec_enc_small by (rewrite pow256_2; assumption).
  destruct e as [k [bn loc h t u]]. reflexivity.
Qed.

Lemma centry_decode_short t : (length t < 41)%nat -> centry_decode_prefix t = DErr.
Proof.
  intros H. unfold centry_decode_prefix.
  destruct (take 32 t) as [[key b1]|] eqn:T1; [|reflexivity].
  destruct (take 1 b1) as [[fl b2]|] eqn:T2; [|reflexivity].
  destruct (take 2 b2) as [[ln b3]|] eqn:T3; [|reflexivity].
  destruct (take (Z.to_nat (le_dec ln)) b3) as [[loc b4]|] eqn:T4; [|reflexivity].
  destruct (take 2 b4) as [[h b5]|] eqn:T5; [|reflexivity].
  destruct (take 2 b5) as [[t' b6]|] eqn:T6; [|reflexivity].
  destruct (take 2 b6) as [[u b7]|] eqn:T7; [|reflexivity].
  exfalso.
  apply take_sound in T1 as (-> & L1), T2 as (-> & L2), T3 as (-> & L3), T4 as (-> & L4),
    T5 as (-> & L5), T6 as (-> & L6), T7 as (-> & L7).
  rewrite !app_length in H. lia.
Qed.

Lemma centry_prefix_consumed b (e : centry) n : centry_decode_prefix b = DOk e n -> (41 <= n <= length b)%nat.
Proof.
  unfold centry_decode_prefix.
  destruct (take 32 b) as [[key b1]|] eqn:T1; [|discriminate].
  destruct (take 1 b1) as [[fl b2]|] eqn:T2; [|discriminate].
  destruct (take 2 b2) as [[ln b3]|] eqn:T3; [|discriminate].
  destruct (take (Z.to_nat (le_dec ln)) b3) as [[loc b4]|] eqn:T4; [|discriminate].
  destruct (take 2 b4) as [[h b5]|] eqn:T5; [|discriminate].
  destruct (take 2 b5) as [[t' b6]|] eqn:T6; [|discriminate].
  destruct (take 2 b6) as [[u b7]|] eqn:T7; [|discriminate].
  intros H. injection H as <- <-.
  apply take_sound in T1 as (-> & L1), T2 as (-> & L2), T3 as (-> & L3), T4 as (-> & L4),
    T5 as (-> & L5), T6 as (-> & L6), T7 as (-> & L7).
  rewrite !app_length. lia.
Qed.

Fixpoint centries_encode (l : list centry) : bytes :=
  match l with [] => [] | e :: l' => centry_encode e ++ centries_encode l' end.

Lemma smap_encode_ok (l : list centry) : Forall centry_wf l -> smap_encode l = Some (centries_encode l).
Proof.
  induction 1 as [|e l He Hl IH]; [reflexivity|].
  cbn [smap_encode centries_encode]. destruct He as (_ & Hlen & _).
  destruct (65535 <? Z.of_nat (length (cs_loc (snd e)))) eqn:E; [apply Z.ltb_lt in E; lia|].
  rewrite IH. reflexivity.
Qed.

(* the encoder refuses (the whole map) when a location is longer than 65535 bytes *)
Theorem smap_encode_too_long (l : list centry) (e : centry) : In e l -> 65535 < Z.of_nat (length (cs_loc (snd e))) -> smap_encode l = None.
Proof.
  induction l as [|e' l IH]; intros Hin Hlen; [destruct Hin|].
  cbn [smap_encode]. destruct (65535 <? Z.of_nat (length (cs_loc (snd e')))) eqn:E; [reflexivity|].
  destruct Hin as [->|Hin]; [apply Z.ltb_ge in E; lia|]. rewrite IH by assumption. reflexivity.
Qed.

Lemma centries_roundtrip (l : list centry) : forall fuel rest, Forall centry_wf l -> (length l < fuel)%nat ->
  (rest = [] \/ centry_decode_prefix rest = DErr) ->
  smap_decode_list fuel (centries_encode l ++ rest) =
    match rest with [] => DOk l (length (centries_encode l)) | _ => DErr end.
Proof.
  induction l as [|e l IH]; intros fuel rest Hwf Hf Hr.
  - destruct fuel; [lia|]. cbn [centries_encode app smap_decode_list].
    destruct rest as [|r0 rs]; [reflexivity|]. destruct Hr as [Hr|Hr]; [discriminate|]. rewrite Hr. reflexivity.
  - destruct fuel as [|fuel]; [cbn in Hf; lia|]. inversion Hwf as [|? ? He Hl]; subst.
    cbn [centries_encode smap_decode_list]. rewrite <- app_assoc.
    destruct (centry_encode e ++ centries_encode l ++ rest) as [|c0 cs] eqn:Eb.
    { apply (f_equal (@length _)) in Eb. rewrite app_length, centry_encode_length in Eb by exact (proj1 He). cbn in Eb. lia. }
    rewrite <- Eb. rewrite centry_prefix_roundtrip by exact He. rewrite skipn_app_exact.
    rewrite IH; [|assumption|cbn in Hf; lia|assumption].
    destruct rest; [rewrite app_length; reflexivity | reflexivity].
Qed.

Theorem smap_roundtrip_list (l : list centry) b : Forall centry_wf l -> smap_encode l = Some b ->
  smap_decode b = DOk l (length b).
Proof.
  intros Hwf He. rewrite smap_encode_ok in He by exact Hwf. injection He as <-.
  unfold smap_decode. rewrite <- (app_nil_r (centries_encode l)) at 2.
  rewrite centries_roundtrip; [reflexivity|exact Hwf| |left; reflexivity].
  assert (41 * length l <= length (centries_encode l))%nat; [|lia].
  clear -Hwf. induction Hwf as [|e l He Hl IH]; [cbn; lia|].
  cbn [centries_encode length]. rewrite app_length, centry_encode_length by exact (proj1 He). lia.
Qed.

(* a file with 1..40 surplus bytes is refused *)
Theorem smap_trailing_refused (l : list centry) b t : Forall centry_wf l -> smap_encode l = Some b ->
  (0 < length t < 41)%nat -> smap_decode (b ++ t) = DErr.
Proof.
  intros Hwf He Ht. rewrite smap_encode_ok in He by exact Hwf. injection He as <-.
  unfold smap_decode. rewrite centries_roundtrip; [|exact Hwf| |right; apply centry_decode_short; lia].
  - destruct t; [cbn in Ht; lia | reflexivity].
  - assert (41 * length l <= length (centries_encode l))%nat; [|rewrite app_length; lia].
    clear -Hwf. induction Hwf as [|e l He Hl IH]; [cbn; lia|].
    cbn [centries_encode length]. rewrite app_length, centry_encode_length by exact (proj1 He). lia.
Qed.

(* the decoder's own fuel is never exhausted and it never dies *)
Theorem smap_decode_list_fuel : forall fuel b, (length b < fuel)%nat ->
  smap_decode_list fuel b <> DFuel /\ smap_decode_list fuel b <> DFatal.
Proof.
  induction fuel as [|fuel IH]; intros b Hf; [lia|].
  cbn [smap_decode_list]. destruct b as [|b0 bs]; [split; discriminate|].
  destruct (centry_decode_prefix (b0 :: bs)) as [e n| | |] eqn:Ed.
  - apply centry_prefix_consumed in Ed. specialize (IH (skipn n (b0 :: bs))).
    destruct (smap_decode_list fuel (skipn n (b0 :: bs))); try (split; discriminate).
    + exfalso. apply IH; [rewrite skipn_length; lia | reflexivity].
    + exfalso. refine (proj1 (IH _) eq_refl). rewrite skipn_length. lia.
  - split; discriminate.
  - exfalso. unfold centry_decode_prefix in Ed.
    repeat match type of Ed with
           | match ?t with _ => _ end = _ => destruct t as [[? ?]|]; try discriminate
           end.
  - exfalso. unfold centry_decode_prefix in Ed.
    repeat match type of Ed with
           | match ?t with _ => _ end = _ => destruct t as [[? ?]|]; try discriminate
           end.
Qed.
Theorem smap_decode_total b : smap_decode b <> DFuel /\ smap_decode b <> DFatal.
Proof. apply smap_decode_list_fuel. lia. Qed.

(* as a finite map: every order of the entries of a map with distinct keys *)
Lemma smap_lookup_in (l : list centry) : NoDup (map fst l) -> forall k v, smap_lookup k l = Some v <-> In (k, v) l.
Proof.
  induction l as [|[k' v'] l IH]; intros Hnd k v.
  - cbn. split; [discriminate | tauto].
  - cbn [map fst] in Hnd. inversion Hnd as [|? ? Hnotin Hnd']; subst. cbn [smap_lookup In].
    destruct (smap_lookup k l) as [w|] eqn:El.
    + apply (IH Hnd') in El. split.
      * intros H. injection H as <-. right. exact El.
      * intros [H|H]; [injection H as <- <-; exfalso; apply Hnotin; apply (in_map fst) in El; exact El|].
        apply (IH Hnd') in H. rewrite <- H. symmetry. apply (IH Hnd'). exact El.
    + destruct (bytes_eqb k k') eqn:Ek.
      * apply bytes_eqb_eq in Ek. subst k'. split.
        -- intros H. injection H as <-. left. reflexivity.
        -- intros [H|H]; [injection H as <-; reflexivity|]. apply (IH Hnd') in H. congruence.
      * apply bytes_eqb_neq in Ek. split; [discriminate|].
        intros [H|H]; [injection H as <- <-; congruence|]. apply (IH Hnd') in H. congruence.
Qed.

Theorem smap_roundtrip (m l : list centry) : NoDup (map fst m) -> Forall centry_wf m -> Permutation l m ->
  exists b, smap_encode l = Some b /\ smap_decode b = DOk l (length b) /\
            forall k, smap_lookup k l = smap_lookup k m.
Proof.
  intros Hnd Hwf Hp.
  assert (Hwfl : Forall centry_wf l).
  { apply Forall_forall. intros e He. rewrite Forall_forall in Hwf. apply Hwf. apply (Permutation_in _ Hp). exact He. }
  assert (Hndl : NoDup (map fst l)).
  { apply (Permutation_NoDup (l := map fst m)); [apply Permutation_map; symmetry; exact Hp | exact Hnd]. }
  exists (centries_encode l). split; [apply smap_encode_ok; exact Hwfl|]. split.
  - apply smap_roundtrip_list; [exact Hwfl | apply smap_encode_ok; exact Hwfl].
  - intros k. destruct (smap_lookup k l) as [v|] eqn:E1.
    + symmetry. apply (smap_lookup_in m Hnd). apply (Permutation_in _ Hp). apply (smap_lookup_in l Hndl). exact E1.
    + destruct (smap_lookup k m) as [w|] eqn:E2; [|reflexivity].
      apply (smap_lookup_in m Hnd) in E2. apply (Permutation_in _ (Permutation_sym Hp)) in E2.
      apply (smap_lookup_in l Hndl) in E2. congruence.
Qed.

(* the decoder accepts a non-canonical banned byte: decoding is not injective on bytes
   (two files, one map); encoding is *)
Theorem smap_decode_not_injective :
  exists b1 b2 l n, b1 <> b2 /\ smap_decode b1 = DOk l n /\ smap_decode b2 = DOk l n.
Proof.
  exists (zeros 32 ++ [Byte.x01] ++ zeros 8), (zeros 32 ++ [Byte.x02] ++ zeros 8).
  eexists. eexists. split; [vm_compute; discriminate|]. split; vm_compute; reflexivity.
Qed.

(* ==== the six signing-byte languages are pairwise disjoint =================================== *)
Definition differ_at (i : nat) (p1 p2 : bytes) : bool :=
  match nth_error p1 i, nth_error p2 i with
  | Some a, Some b => negb (Byte.eqb a b)
  | _, _ => false
  end.
Lemma prefix_differ_b i p1 p2 r1 r2 : differ_at i p1 p2 = true -> p1 ++ r1 <> p2 ++ r2.
Proof.
  unfold differ_at. destruct (nth_error p1 i) as [a|] eqn:E1; [|discriminate].
  destruct (nth_error p2 i) as [b|] eqn:E2; [|discriminate]. intros H.
  apply (prefix_differ p1 p2 r1 r2 i a b E1 E2). intros ->.
  rewrite (proj2 (byte_eqb_eq b b) eq_refl) in H. discriminate.
Qed.

Lemma msg_signing_split m : exists rest,
  msg_signing_bytes m =
    ascii_bytes (match m with
                 | MReport _ => prefix_report | MAuth _ => prefix_auth | MMigration _ => prefix_migration
                 | MServer _ => prefix_aserver | MStats _ => prefix_stats | MReg _ => prefix_reg
                 end) ++ rest.
Proof. destruct m; eexists; reflexivity. Qed.

Theorem signing_disjoint m1 m2 : msg_signing_bytes m1 = msg_signing_bytes m2 -> msg_type m1 = msg_type m2.
Proof.
  intros E. destruct (msg_signing_split m1) as [r1 E1]. destruct (msg_signing_split m2) as [r2 E2].
  rewrite E1, E2 in E. clear E1 E2.
  destruct m1, m2; try reflexivity; exfalso; revert E;
    first [ apply (prefix_differ_b 0); vm_compute; reflexivity
          | apply (prefix_differ_b 1); vm_compute; reflexivity
          | apply (prefix_differ_b 9); vm_compute; reflexivity ].
Qed.

(* same bytes => same type and same signed fields *)
Theorem signing_unambiguous m1 m2 : msg_wf m1 -> msg_wf m2 ->
  msg_signing_bytes m1 = msg_signing_bytes m2 -> msg_same_signed m1 m2.
Proof.
  intros W1 W2 E. pose proof (signing_disjoint m1 m2 E) as T.
  destruct m1, m2; try discriminate T; cbn [msg_signing_bytes msg_wf msg_same_signed] in *.
  - apply report_signing_injective; assumption.
  - pose proof (auth_signing_injective _ _ W1 W2 E) as U. unfold auth_unsigned in U.
    injection U as -> -> -> -> -> -> -> -> ->. repeat split; reflexivity.
  - apply migration_signing_injective; assumption.
  - pose proof (aserver_signing_injective _ _ W1 W2 E) as U. unfold aserver_unsigned in U.
    injection U as -> -> -> -> -> ->. repeat split; reflexivity.
  - apply stats_signing_injective; assumption.
  - apply reg_signing_injective; assumption.
Qed.
