package suites

// Static scan of the server package for the places that create, truncate or rename files.
// A create-then-write or truncate-then-write of a file whose empty content is NOT a valid
// state (server.keys, gcaPubKey.dat) exposes a "present but empty" crash image; the crash
// suite synthesizes such images only when a site outside the expected set exists.

import (
	"go/ast"
	"go/parser"
	"go/token"
	"os"
	"path/filepath"
	"sort"
	"strings"
)

type writeSite struct {
	Func, Call string
	Trunc      bool // creates or truncates (not append-only)
}

func (w writeSite) String() string {
	t := "append"
	if w.Trunc {
		t = "create-or-truncate"
	}
	return w.Func + ":" + w.Call + ":" + t
}

// scanWriteSites lists every os.Create / os.WriteFile / ioutil.WriteFile / os.OpenFile / os.Rename
// call in the non-test, non-verif files of <repo>/server.
func scanWriteSites(repo string) ([]writeSite, error) {
	dir := filepath.Join(repo, "server")
	ents, err := os.ReadDir(dir)
	if err != nil {
		return nil, err
	}
	var out []writeSite
	fs := token.NewFileSet()
	for _, e := range ents {
		n := e.Name()
		if !strings.HasSuffix(n, ".go") || strings.HasSuffix(n, "_test.go") || strings.HasPrefix(n, "verif_") || n == "testing.go" {
			continue
		}
		f, err := parser.ParseFile(fs, filepath.Join(dir, n), nil, 0)
		if err != nil {
			return nil, err
		}
		for _, d := range f.Decls {
			fd, ok := d.(*ast.FuncDecl)
			if !ok || fd.Body == nil {
				continue
			}
			ast.Inspect(fd.Body, func(nd ast.Node) bool {
				ce, ok := nd.(*ast.CallExpr)
				if !ok {
					return true
				}
				se, ok := ce.Fun.(*ast.SelectorExpr)
				if !ok {
					return true
				}
				pk, ok := se.X.(*ast.Ident)
				if !ok {
					return true
				}
				name := pk.Name + "." + se.Sel.Name
				switch name {
				case "os.Create", "os.WriteFile", "ioutil.WriteFile":
					out = append(out, writeSite{fd.Name.Name, name, true})
				case "os.Rename":
					out = append(out, writeSite{fd.Name.Name, name, false})
				case "os.OpenFile":
					trunc := true
					if len(ce.Args) >= 2 {
						var sb strings.Builder
						ast.Inspect(ce.Args[1], func(x ast.Node) bool {
							if s, ok := x.(*ast.SelectorExpr); ok {
								sb.WriteString(s.Sel.Name + " ")
							}
							return true
						})
						fl := sb.String()
						trunc = !strings.Contains(fl, "O_APPEND")
					}
					out = append(out, writeSite{fd.Name.Name, name, trunc})
				}
				return true
			})
		}
	}
	sort.Slice(out, func(i, j int) bool { return out[i].String() < out[j].String() })
	return out, nil
}

// expectedWriteSites: create-or-truncate sites whose target may validly be empty (logs created
// empty at start-up, the atomic writer's temporary file, the MOER cache) plus append-only sites.
var expectedWriteSites = map[string]bool{
	"loadEquipment:os.Create:create-or-truncate":                   true,
	"loadEquipmentHistory:os.Create:create-or-truncate":            true,
	"loadEquipmentReports:os.Create:create-or-truncate":            true,
	"writeFileAtomic:os.OpenFile:create-or-truncate":               true,
	"writeFileAtomic:os.Rename:append":                             true,
	"saveAllDeviceStats:os.OpenFile:append":                        true,
	"saveEquipment:os.OpenFile:append":                             true,
	"saveEquipmentReport:os.OpenFile:append":                       true,
	"NewLogger:os.OpenFile:append":                                 true,
	"fetchAndSaveHistoricalBAData:os.WriteFile:create-or-truncate": true,
}

func unexpectedWriteSites(repo string) ([]string, []string, error) {
	sites, err := scanWriteSites(repo)
	if err != nil {
		return nil, nil, err
	}
	var all, bad []string
	for _, s := range sites {
		all = append(all, s.String())
		if !expectedWriteSites[s.String()] {
			bad = append(bad, s.String())
		}
	}
	return all, bad, nil
}
