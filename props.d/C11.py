# C11 -- see DESIGN.md section 5
PROP = {
    "props_v": "Props/C11.v",
    "extra_v": ["ClientSyncRun.v"],
    "suites": [("test", "rogue")],
    "run_vo": "ClientSyncRun.vo",
    "assumptions": [],
}
TEXT = {
    "text": "wip",
    "note": "wip",
    "technique": "Coq proof + differential correspondence (vm_compute)",
}
