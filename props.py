# Per-property configuration of ./check (see DESIGN.md section 5).
TRUSTED_BASE = [
    "Coq 8.16.1 kernel; vm_compute (generated obligations and evaluation of the model on harness histories); native_compute not used",
    "axioms: none declared in the development; Print Assumptions output per theorem is recorded under coverage.axioms_by_theorem",
    "correspondence check: Go harness (/verif/harness) driving the real packages built from /repo with -tags 'test verif'; generators, canonicalisers and property oracles are trusted",
    "translators: harness/suites/consts.go (constants + go/ast literal extraction)",
    "Go toolchain, OS",
]

PROPS = {
    "C20": {
        "props_v": "Props/C20.v",
        "extra_v": ["TimeslotRun.v"],
        "gen_bins": ["prod"],
        "gen_obligations": ["c20_genesis@ConstsProd", "c20_extraction_complete@ConstsProd", "c20_cadence_inequality@ConstsProd"],
        "suites": [("prod", "timeslot")],
        "assumptions": [
            "rotation literals (3200/432/4032/2016) are read syntactically from the anchored function bodies; their behavioural effect is pinned by the C01/C03 suites",
            "schedule theorem assumes the rotation thread wakes at least every P slots and a triggered rotation finishes within D slots (D is a parameter; the theorem covers every D up to the computed slack)",
        ],
    },
}

# Texts for MANIFEST.json (mkmanifest.py)
TEXTS = {
    "C20": {
        "text": "Coq theorems over all int64 unix times / uint32 slots (round trip, monotonicity, refusal before genesis, exact int64-widened comparison for every 32-bit pair) and a schedule invariant proved by induction over arbitrary event lists; the genesis date and the cadence inequality are re-proved on constants regenerated from a production-tag build and from go/ast literal extraction on every run; the executable model is compared with glow.UnixToTimeslot/TimeslotToUnix/CurrentTimeslot of a production-tag binary on boundary-stride and random inputs.",
        "note": "Trusted: Coq kernel + vm_compute, the constants translator, the harness. The rotation thread is modelled as a schedule automaton (wake-up period P, rotation duration D as parameters); wall-clock behaviour of time.Now is sandwiched, not proved.",
        "technique": "Coq proof (lia, induction over schedules) + regenerated constants + differential correspondence (vm_compute)",
    },
}
NOT_YET = {("C%02d" % i): "check not built yet in this round (planned in DESIGN.md section 5; not a claim that the technique cannot apply)" for i in range(1, 21)}
