(* Executable model of the GCA server's decision core (package server of /repo):
   report_listener_udp.go, report_persist.go, equipment.go, api_equipment_auth.go,
   api_server_gca_auth.go, api_device_stats.go, sync_listener_tcp.go (bitfield),
   api_recent_reports.go, watttime.go (impact-rate critical sections), server.go
   (NewGCAServer load order).  Definitions only; proofs are in Server*_lemmas.v.

   Conventions (DESIGN.md section 3): every critical section is one [op]; Go's machine
   arithmetic is written out ([u32], [i64]); every slice/array/nil-pointer access that
   can fail is an explicit [Panic]; signature verification and signing are Section
   variables; memory and disk are both part of the state; the disk is modelled at record
   granularity (each record is appended by a single write call; byte layouts are C15's). *)
From Coq Require Import ZArith List Bool.
From GCA Require Import Wrap Bytes Codec Amap Timeslot.
Import ListNotations.
Open Scope Z_scope.
Notation length := List.length.

Definition max_capacity_buffer : Z := 135.
Definition accept_half : Z := 432.
Definition window_len : Z := 4032.
Definition week_len : Z := 2016.
Definition rotate_trigger : Z := 3200.
Definition catchup_bound : Z := 4000.

(* sparse 4032-slot arrays: absent index = Go zero value *)
Definition window := list (Z * report).
Definition rates := list (Z * Z).          (* float64 bit patterns *)

Record devstat := { ds_key : bytes; ds_power : list (Z * Z); ds_impact : list (Z * Z) }.
Record stats := { st_devs : list devstat; st_tso : Z; st_sig : bytes }.

Record disk := {
  d_keys : option (bytes * bytes);      (* server.keys = public ++ private *)
  d_temp : option bytes;                (* gcaTempPubKey.dat (installed by the technician) *)
  d_gca : option bytes;                 (* gcaPubKey.dat *)
  d_auths : option (list auth);         (* equipment-authorizations.dat *)
  d_reports : option (list report);     (* equipment-reports.dat *)
  d_stats : option (list stats) }.      (* allDeviceStats.dat *)

Record mem := {
  equipment : list (Z * auth);
  index : list (bytes * Z);             (* equipmentShortID *)
  bans : list Z;
  reports : list (Z * window);
  impact : list (Z * rates);
  offset : Z;                           (* equipmentReportsOffset *)
  history : list stats;                 (* equipmentStatsHistory *)
  gca : bytes; gca_avail : bool; tempkey : bytes;
  skeys : bytes * bytes }.

Record state := { mm : mem; dd : disk }.

Inductive out :=
| Quiet                       (* nothing observable is returned (UDP, background jobs) *)
| Accepted (isnew : bool)     (* HTTP 200 *)
| Refused                     (* HTTP 4xx/5xx, TCP refusal byte *)
| StatsOut (s : stats)
| Panic.                      (* a goroutine would panic *)

Definition getslot (i : Z) (w : window) : report :=
  match zget i w with Some r => r | None => blank_report end.
Definition getrate (i : Z) (w : rates) : Z :=
  match zget i w with Some r => r | None => 0 end.
Definition set_p (r : report) (p : Z) : report :=
  {| r_id := r_id r; r_ts := r_ts r; r_p := p; r_sig := r_sig r |}.

(* report.PowerOutput > capacity*MaxCapacityBuffer/100 && report.PowerOutput <= math.MaxInt64
   (after the repairs of D13 and K1 the product is computed without wrap-around) *)
Definition overcap (cap p : Z) : bool :=
  (cap * max_capacity_buffer / 100 <? p) && (p <=? 2^63 - 1).

Definition set_mem (st : state) (m' : mem) : state := {| mm := m'; dd := dd st |}.

Definition with_reports (m0 : mem) (r : list (Z * window)) : mem :=
  {| equipment := equipment m0; index := index m0; bans := bans m0; reports := r;
     impact := impact m0; offset := offset m0; history := history m0; gca := gca m0;
     gca_avail := gca_avail m0; tempkey := tempkey m0; skeys := skeys m0 |}.
Definition with_impact (m0 : mem) (r : list (Z * rates)) : mem :=
  {| equipment := equipment m0; index := index m0; bans := bans m0; reports := reports m0;
     impact := r; offset := offset m0; history := history m0; gca := gca m0;
     gca_avail := gca_avail m0; tempkey := tempkey m0; skeys := skeys m0 |}.
Definition with_gca (m0 : mem) (k : bytes) : mem :=
  {| equipment := equipment m0; index := index m0; bans := bans m0; reports := reports m0;
     impact := impact m0; offset := offset m0; history := history m0; gca := k;
     gca_avail := true; tempkey := tempkey m0; skeys := skeys m0 |}.

Definition disk_append_report (dk : disk) (r : report) : disk :=
  {| d_keys := d_keys dk; d_temp := d_temp dk; d_gca := d_gca dk; d_auths := d_auths dk;
     d_reports := match d_reports dk with Some l => Some (l ++ [r]) | None => None end;
     d_stats := d_stats dk |}.
Definition disk_append_auth (dk : disk) (a : auth) : disk :=
  {| d_keys := d_keys dk; d_temp := d_temp dk; d_gca := d_gca dk;
     d_auths := match d_auths dk with Some l => Some (l ++ [a]) | None => None end;
     d_reports := d_reports dk; d_stats := d_stats dk |}.
(* O_APPEND|O_CREATE *)
Definition disk_append_stats (dk : disk) (s : stats) : disk :=
  {| d_keys := d_keys dk; d_temp := d_temp dk; d_gca := d_gca dk; d_auths := d_auths dk;
     d_reports := d_reports dk;
     d_stats := match d_stats dk with Some l => Some (l ++ [s]) | None => Some [s] end |}.
Definition disk_set_gca (dk : disk) (k : bytes) : disk :=
  {| d_keys := d_keys dk; d_temp := d_temp dk; d_gca := Some k; d_auths := d_auths dk;
     d_reports := d_reports dk; d_stats := d_stats dk |}.

Section Model.
  Variable verify : bytes -> bytes -> bytes -> bool.     (* glow.Verify key message signature *)
  Variable sign : bytes -> bytes -> bytes.               (* glow.Sign message privatekey *)
  Variable stats_sb : list devstat -> Z -> bytes.        (* AllDeviceStats.SigningBytes (C15) *)

  (* ---------------------------------------------------------------- reports *)
  (* integrateReport: [st] is returned unchanged on every ignoring path *)
  Definition integrate (st : state) (r : report) : state * out :=
    let m0 := mm st in
    let o := offset m0 in
    if r_ts r <? o then (st, Quiet)
    else if u32 (o + window_len) <=? r_ts r then (st, Quiet)
    else
      let idx := u32 (r_ts r - o) in
      match zget (r_id r) (reports m0) with
      | None => (st, Panic)                                 (* nil *[4032] dereference *)
      | Some w =>
          if window_len <=? idx then (st, Panic)            (* index out of range *)
          else
            let cur := getslot idx w in
            if r_p cur =? 1 then (st, Quiet)
            else if report_eqb cur r then (st, Quiet)
            else
              let w1 := if r_p cur =? 0 then zset idx r w else zset idx (set_p cur 1) w in
              let cap := match zget (r_id r) (equipment m0) with Some a => a_cap a | None => 0 end in
              let w2 := if overcap cap (r_p r) then zset idx (set_p (getslot idx w1) 1) w1 else w1 in
              ({| mm := with_reports m0 (zset (r_id r) w2 (reports m0));
                  dd := disk_append_report (dd st) r |}, Quiet)
      end.

  (* parseReport *)
  Definition parse_report (st : state) (raw : bytes) : option report :=
    match report_decode raw with
    | None => None
    | Some r =>
        match zget (r_id r) (equipment (mm st)) with
        | None => None
        | Some a => if verify (a_key a) (report_signing_bytes r) (r_sig r) then Some r else None
        end
    end.

  (* managedHandleEquipmentReport *)
  Definition handle_report (st : state) (now : Z) (raw : bytes) : state * out :=
    match parse_report st raw with
    | None => (st, Quiet)
    | Some r =>
        if negb (accept_go accept_half (r_ts r) now) then (st, Quiet)
        else if (r_p r =? 0) || (r_p r =? 1) then (st, Quiet)
        else integrate st r
    end.

  (* threadedListenUDP: 80-byte read buffer; a longer datagram is truncated to its
     leading 80 bytes, a shorter one is dropped *)
  Definition udp_receive (st : state) (now : Z) (dgram : bytes) : state * out :=
    if Nat.ltb (length dgram) 80 then (st, Quiet)
    else handle_report st now (firstn 80 dgram).

  (* ---------------------------------------------------------------- registration *)
  Definition register (st : state) (key sig : bytes) : state * out :=
    let m0 := mm st in
    if gca_avail m0 then (st, Refused)
    else if negb (verify (tempkey m0) (reg_signing_bytes key) sig) then (st, Refused)
    else ({| mm := with_gca m0 (pad 32 key); dd := disk_set_gca (dd st) (pad 32 key) |}, Accepted true).

  (* ---------------------------------------------------------------- equipment *)
  Definition add_device (m0 : mem) (a : auth) : mem :=
    {| equipment := zset (a_id a) a (equipment m0); index := bset (a_key a) (a_id a) (index m0);
       bans := bans m0; reports := zset (a_id a) [] (reports m0);
       impact := zset (a_id a) [] (impact m0); offset := offset m0; history := history m0;
       gca := gca m0; gca_avail := gca_avail m0; tempkey := tempkey m0; skeys := skeys m0 |}.
  (* conflict: the id is banned; its key lookup is removed only if it still points at this id *)
  Definition ban_device (m0 : mem) (id : Z) (cur : auth) : mem :=
    {| equipment := zdel id (equipment m0);
       index := match bget (a_key cur) (index m0) with
                | Some i => if i =? id then bdel (a_key cur) (index m0) else index m0
                | None => index m0 end;
       bans := id :: bans m0; reports := zdel id (reports m0); impact := zdel id (impact m0);
       offset := offset m0; history := history m0; gca := gca m0; gca_avail := gca_avail m0;
       tempkey := tempkey m0; skeys := skeys m0 |}.

  (* saveEquipment (live path) *)
  Definition save_equipment (st : state) (a : auth) : state * out :=
    let m0 := mm st in
    if zin (a_id a) (bans m0) then (st, Refused)
    else
      match zget (a_id a) (equipment m0) with
      | Some cur =>
          if auth_go_eq cur a then (st, Accepted false)
          else match d_auths (dd st) with
               | None => (st, Refused)
               | Some _ => ({| mm := ban_device m0 (a_id a) cur; dd := disk_append_auth (dd st) a |}, Refused)
               end
      | None =>
          match d_auths (dd st) with
          | None => (st, Refused)
          | Some _ => ({| mm := add_device m0 a; dd := disk_append_auth (dd st) a |}, Accepted true)
          end
      end.

  (* managedAuthorizeEquipment *)
  Definition authorize (st : state) (a : auth) : state * out :=
    let m0 := mm st in
    if negb (gca_avail m0) then (st, Refused)
    else if negb (verify (gca m0) (auth_signing_bytes a) (a_sig a)) then (st, Refused)
    else save_equipment st a.

  (* ---------------------------------------------------------------- statistics *)
  Definition half_power (x : Z) (w : window) : list (Z * Z) :=
    map (fun p => (fst p - x, r_p (snd p)))
        (filter (fun p => (x <=? fst p) && (fst p <? x + week_len)) w).
  Definition half_rates (x : Z) (w : rates) : list (Z * Z) :=
    map (fun p => (fst p - x, snd p))
        (filter (fun p => (x <=? fst p) && (fst p <? x + week_len)) w).

  Inductive bres := BOk (s : stats) | BErr | BPanic.

  Fixpoint build_devs (m0 : mem) (x : Z) (l : list (Z * window)) : option (list devstat) :=
    match l with
    | [] => Some []
    | (id, w) :: l' =>
        match zget id (impact m0), build_devs m0 x l' with
        | Some rt, Some ds =>
            Some ({| ds_key := match zget id (equipment m0) with Some a => pad 32 (a_key a) | None => zeros 32 end;
                     ds_power := half_power x w; ds_impact := half_rates x rt |} :: ds)
        | _, _ => None                                     (* nil *[4032]float64 sliced *)
        end
    end.

  (* buildDeviceStats; devices in ascending id order (Go's map order is unspecified) *)
  Definition build_stats (m0 : mem) (tso : Z) : bres :=
    if negb (tso mod week_len =? 0) then BErr
    else if tso <? offset m0 then BErr
    else if u32 (offset m0 + week_len) <? tso then BErr
    else
      let x := if tso =? u32 (offset m0 + week_len) then week_len else 0 in
      match build_devs m0 x (zsort (reports m0)) with
      | None => BPanic
      | Some ds => BOk {| st_devs := ds; st_tso := tso; st_sig := sign (stats_sb ds tso) (snd (skeys m0)) |}
      end.

  (* AllDeviceStatsHandler (after the repair of D4 it never writes shared memory) *)
  Definition stats_query (st : state) (tso : Z) : state * out :=
    let m0 := mm st in
    if negb (tso mod week_len =? 0) then (st, Refused)
    else if tso <? offset m0 then
      match nth_error (history m0) (Z.to_nat (tso / week_len)) with
      | Some s => (st, StatsOut s)
      | None => (st, Panic)
      end
    else match build_stats m0 tso with
         | BOk s => (st, StatsOut s)
         | BErr => (st, Refused)
         | BPanic => (st, Panic)
         end.

  (* ---------------------------------------------------------------- rotation *)
  Definition shift_window {V} (w : list (Z * V)) : list (Z * V) :=
    map (fun p => (fst p - week_len, snd p)) (filter (fun p => week_len <=? fst p) w).

  (* migrateReports' critical section *)
  Definition rotate (st : state) : state * out :=
    let m0 := mm st in
    match build_stats m0 (offset m0) with
    | BOk s =>
        ({| mm := {| equipment := equipment m0; index := index m0; bans := bans m0;
                     reports := map (fun p => (fst p, shift_window (snd p))) (reports m0);
                     impact := map (fun p => (fst p, shift_window (snd p))) (impact m0);
                     offset := u32 (offset m0 + week_len); history := history m0 ++ [s];
                     gca := gca m0; gca_avail := gca_avail m0; tempkey := tempkey m0;
                     skeys := skeys m0 |};
            dd := disk_append_stats (dd st) s |}, Quiet)
    | _ => (st, Panic)                                      (* panic("unable to build device stats") *)
    end.

  (* one iteration of the rotation thread: rotate iff now - offset > 3200 *)
  Definition rotate_tick (st : state) (now : Z) : state * out :=
    if rotate_trigger <? i64 now - i64 (offset (mm st)) then rotate st else (st, Quiet).

  (* start-up catch-up: rotate while now - offset >= 4000 ([fuel] bounds the loop;
     exhaustion is reported as Panic and excluded by the theorems) *)
  Fixpoint catch_up (fuel : nat) (st : state) (now : Z) : state * out :=
    if i64 now - i64 (offset (mm st)) <? catchup_bound then (st, Quiet)
    else match fuel with
         | O => (st, Panic)
         | S f => match rotate st with
                  | (st', Quiet) => catch_up f st' now
                  | (st', o) => (st', o)
                  end
         end.

  (* ---------------------------------------------------------------- impact rates *)
  (* the locked section of managedGetWattTimeIndexData for one captured device id
     (after the repair of D8 the device's arrays are re-validated under the lock) *)
  Definition impact_write (st : state) (id ts v : Z) : state * out :=
    let m0 := mm st in
    let idx := u32 (ts - offset m0) in
    if (offset m0 <=? ts) && (idx <? window_len) then
      match zget id (impact m0) with
      | Some rt => (set_mem st (with_impact m0 (zset id (zset idx v rt) (impact m0))), Quiet)
      | None => (st, Quiet)
      end
    else (st, Quiet).

  (* ---------------------------------------------------------------- views *)
  (* managedHandleSyncConn: bit i set iff slot i holds a record (banned included) *)
  Definition sync_view (st : state) (id : Z) : option (bytes * Z * list Z) :=
    match zget id (reports (mm st)), zget id (equipment (mm st)) with
    | Some w, Some a =>
        Some (pad 32 (a_key a), offset (mm st),
              map fst (filter (fun p => 0 <? r_p (snd p)) w))
    | _, _ => None
    end.
  (* getRecentReportsWithSignature *)
  Definition recent_view (st : state) (key : bytes) : option window :=
    match bget key (index (mm st)) with
    | Some id => zget id (reports (mm st))
    | None => None
    end.
  Definition equipment_view (st : state) : list (Z * auth) := zsort (equipment (mm st)).

  (* CheckInvariants *)
  Definition keys_distinct (l : list (Z * auth)) : bool :=
    (fix go (l : list (Z * auth)) (seen : list bytes) : bool :=
       match l with
       | [] => true
       | (_, a) :: l' => negb (existsb (bytes_eqb (a_key a)) seen) && go l' (a_key a :: seen)
       end) l [].
  Definition check_invariants (st : state) : bool :=
    let m0 := mm st in
    Nat.eqb (length (equipment m0)) (length (index m0)) &&
    keys_distinct (equipment m0) &&
    forallb (fun p => match bget (a_key (snd p)) (index m0) with
                      | Some i => i =? fst p | None => false end &&
                      zmem (fst p) (impact m0)) (equipment m0).

  (* ---------------------------------------------------------------- start-up *)
  Inductive lres := LOk (st : state) | LErr | LPanic.

  (* loadEquipment: every record is verified first, then the ban rule is replayed *)
  Fixpoint replay_auths (m0 : mem) (l : list auth) : mem :=
    match l with
    | [] => m0
    | a :: l' =>
        if zin (a_id a) (bans m0) then replay_auths m0 l'
        else match zget (a_id a) (equipment m0) with
             | Some cur => if auth_eqb cur a then replay_auths m0 l'
                           else replay_auths (ban_device m0 (a_id a) cur) l'
             | None => replay_auths (add_device m0 a) l'
             end
    end.

  (* loadEquipmentReports: reports of ids banned since are skipped (repair of D2); every
     integrated report is appended to the log again, as the code does *)
  Fixpoint replay_reports (st : state) (l : list report) : lres :=
    match l with
    | [] => LOk st
    | r :: l' =>
        match zget (r_id r) (equipment (mm st)) with
        | None => if zin (r_id r) (bans (mm st)) then replay_reports st l' else LErr
        | Some a =>
            if negb (verify (a_key a) (report_signing_bytes r) (r_sig r)) then LErr
            else match integrate st r with
                 | (st', Quiet) => replay_reports st' l'
                 | (_, _) => LPanic
                 end
        end
    end.

  Definition last_offset (h : list stats) : Z :=
    match rev h with s :: _ => u32 (st_tso s + week_len) | [] => 0 end.

  (* NewGCAServer up to the catch-up loop; [fresh] = the key pair generated on first start *)
  Definition load (dk : disk) (fresh : bytes * bytes) : lres :=
    let keys := match d_keys dk with Some k => k | None => fresh end in
    match d_temp dk with
    | None => LErr
    | Some tk =>
        let auths := match d_auths dk with Some l => l | None => [] end in
        let gk := match d_gca dk with Some k => pad 32 k | None => zeros 32 end in
        if negb (forallb (fun a => verify gk (auth_signing_bytes a) (a_sig a)) auths) then LErr
        else
          let hist := match d_stats dk with Some l => l | None => [] end in
          let m0 := {| equipment := []; index := []; bans := []; reports := []; impact := [];
                       offset := last_offset hist; history := hist; gca := gk;
                       gca_avail := match d_gca dk with Some _ => true | None => false end;
                       tempkey := pad 32 tk; skeys := keys |} in
          let m1 := replay_auths m0 auths in
          let dk1 := {| d_keys := Some keys; d_temp := d_temp dk; d_gca := d_gca dk;
                        d_auths := Some auths;
                        d_reports := Some (match d_reports dk with Some l => l | None => [] end);
                        d_stats := Some hist |} in
          replay_reports {| mm := m1; dd := dk1 |}
                         (match d_reports dk with Some l => l | None => [] end)
    end.

  Definition restart (st : state) (fresh : bytes * bytes) (now : Z) (fuel : nat) : state * out :=
    match load (dd st) fresh with
    | LOk st' => catch_up fuel st' now
    | LErr => (st, Refused)          (* NewGCAServer returns an error *)
    | LPanic => (st, Panic)
    end.

  (* ---------------------------------------------------------------- operations *)
  Inductive op :=
  | OpDatagram (now : Z) (dgram : bytes)
  | OpRegister (key sig : bytes)
  | OpAuthorize (a : auth)
  | OpStats (tso : Z)
  | OpRotateTick (now : Z)
  | OpImpact (id ts v : Z)
  | OpRestart (fresh : bytes * bytes) (now : Z).

  Definition catchup_fuel (now : Z) : nat := Z.to_nat (now / week_len + 2).

  Definition step (st : state) (o : op) : state * out :=
    match o with
    | OpDatagram now d => udp_receive st now d
    | OpRegister k s => register st k s
    | OpAuthorize a => authorize st a
    | OpStats tso => stats_query st tso
    | OpRotateTick now => rotate_tick st now
    | OpImpact id ts v => impact_write st id ts v
    | OpRestart fresh now => restart st fresh now (catchup_fuel now)
    end.

  Definition run (st : state) (ops : list op) : state := fold_left (fun s o => fst (step s o)) ops st.

  (* a freshly installed server directory: only the temporary GCA key is present *)
  Definition fresh_disk (tk : bytes) : disk :=
    {| d_keys := None; d_temp := Some tk; d_gca := None; d_auths := None; d_reports := None; d_stats := None |}.
End Model.
