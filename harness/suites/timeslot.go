package suites

// C20: glow.UnixToTimeslot / TimeslotToUnix / CurrentTimeslot against the
// Gallina model (Timeslot.v).  Meant to run in a binary built WITHOUT the test
// tag so that GenesisTime is the production constant; it also runs in the test
// build (GenesisTime = process start) where only the arithmetic is compared.

import (
	"fmt"
	"time"

	"github.com/glowlabs-org/gca-backend/glow"
	"verifharness/core"
)

func init() { core.Register("timeslot", timeslotSuite) }

func timeslotSuite(seed uint64, tier, outDir string) (*core.Result, error) {
	res := core.NewResult("timeslot", seed, tier)
	rng := core.NewRNG(seed)
	G := int64(glow.GenesisTime)
	n := 600
	if tier == "thorough" {
		n = 12000
	}
	var items []string
	add := func(kind string, in int64, ok bool, out int64, class string) {
		res.Count(class)
		desc := map[string]interface{}{"kind": kind, "in": in, "ok": ok, "out": out}
		res.Case(desc, fmt.Sprint(kind, in), ok)
		k := "0"
		if kind == "t2u" {
			k = "1"
		}
		items = append(items, core.Tuple(k, core.Z(in), core.OptZ(ok, out)))
	}
	u2t := func(t int64, class string) {
		s, err := glow.UnixToTimeslot(t)
		add("u2t", t, err == nil, int64(s), class)
		// property oracle on the implementation alone (stated domain only)
		if t < G && err == nil {
			res.Fail("time before genesis accepted", fmt.Sprintf("u2t-before-genesis"), map[string]interface{}{"unix": t, "slot": s})
		}
		if t >= G && t < G+(1<<32) {
			if err != nil {
				res.Fail("time at/after genesis refused", "u2t-refused", map[string]interface{}{"unix": t})
			} else {
				back := glow.TimeslotToUnix(s)
				if back != t-(t-G)%300 {
					res.Fail("round trip does not return the start of the slot", "roundtrip", map[string]interface{}{"unix": t, "slot": s, "back": back})
				}
			}
		}
	}
	t2u := func(s uint32, class string) {
		add("t2u", int64(s), true, glow.TimeslotToUnix(s), class)
	}
	// boundaries
	for _, d := range []int64{-1 << 62, -1, 0, 1, 299, 300, 301, 599, 600, (1 << 32) - 301, (1 << 32) - 300, (1 << 32) - 1, 1 << 32, (1 << 32) + 299, (1 << 32) + 300, 1 << 33, 1 << 40} {
		if d == -1<<62 {
			u2t(-1<<63, "u2t.extreme")
			u2t(0, "u2t.before")
			continue
		}
		cl := "u2t.boundary"
		if d < 0 {
			cl = "u2t.before"
		} else if d >= 1<<32 {
			cl = "u2t.beyond-domain"
		}
		u2t(G+d, cl)
	}
	u2t(1<<63-1, "u2t.extreme")
	maxSlot := uint32(((1 << 32) - 1) / 300)
	for _, s := range []uint32{0, 1, 2, 2015, 2016, 4031, 4032, maxSlot - 1, maxSlot, maxSlot + 1, maxSlot + 2, 1<<32 - 1, 1 << 31} {
		cl := "t2u.boundary"
		if s > maxSlot {
			cl = "t2u.beyond-domain"
		}
		t2u(s, cl)
	}
	// stride over slot edges + random interior
	var prevSlot uint32
	var prevT int64 = -1
	for i := 0; i < n; i++ {
		k := int64(rng.U64() % uint64(maxSlot))
		edge := []int64{-1, 0, 1, 299}[rng.Intn(4)]
		t := G + k*300 + edge
		if rng.Chance(40) {
			t = G + int64(rng.U64()%(1<<32))
		}
		if t < G {
			u2t(t, "u2t.before")
			continue
		}
		u2t(t, "u2t.in-domain")
		s, _ := glow.UnixToTimeslot(t)
		if prevT >= 0 { // monotonicity oracle on a random pair
			if (prevT <= t && prevSlot > s) || (t <= prevT && s > prevSlot) {
				res.Fail("conversion not monotone", "monotone", map[string]interface{}{"t1": prevT, "s1": prevSlot, "t2": t, "s2": s})
			}
		}
		prevT, prevSlot = t, s
		if rng.Chance(30) {
			t2u(uint32(rng.U64()%uint64(maxSlot+1)), "t2u.in-domain")
		}
	}
	if err := res.CasesFile(outDir, "cases_timeslot", "From Coq Require Import ZArith List.\nFrom GCA Require Import TimeslotRun.", "Z * Z * option Z", items, fmt.Sprintf("ts_mismatches %d", G)); err != nil {
		return nil, err
	}
	// CurrentTimeslot follows the system clock (production build only)
	if sc := isTestBuild(); !sc {
		var sand []string
		for i := 0; i < 20; i++ {
			t0 := time.Now().Unix()
			cs := glow.CurrentTimeslot()
			t1 := time.Now().Unix()
			sand = append(sand, core.Tuple(core.Z(t0), core.Z(int64(cs)), core.Z(t1)))
			res.Count("current.sandwich")
			res.Case(map[string]interface{}{"kind": "current", "t0": t0, "slot": cs, "t1": t1}, fmt.Sprint("cur", t0, i), true)
			lo, _ := glow.UnixToTimeslot(t0)
			hi, _ := glow.UnixToTimeslot(t1)
			if cs < lo || cs > hi {
				res.Fail("CurrentTimeslot does not follow the system clock", "current", map[string]interface{}{"t0": t0, "slot": cs, "t1": t1})
			}
		}
		if err := res.CasesFile(outDir, "cases_current", "From Coq Require Import ZArith List.\nFrom GCA Require Import TimeslotRun.", "Z * Z * Z", sand, fmt.Sprintf("cur_mismatches %d", G)); err != nil {
			return nil, err
		}
		res.Required = append(res.Required, "current.sandwich")
	}
	res.Required = append(res.Required, "u2t.before", "u2t.boundary", "u2t.in-domain", "t2u.boundary", "t2u.in-domain")
	res.Extra["genesis"] = G
	res.Rule = "unix times at slot edges (k*300 + {-1,0,1,299}), random interior, before genesis, extremes; slots up to the no-overflow bound and beyond; a case is non-trivial when the conversion succeeds, distinct by (kind,input)"
	return res, nil
}
