(* Model of client/history.go: the history file of a monitoring device.
     bytes 0..3           origin timeslot, little-endian uint32
     bytes 4(1+k)..+3     reading of timeslot origin+k, little-endian uint32 (0 = nothing stored)
   The file is an arbitrary byte string; os.File.ReadAt / WriteAt are modelled
   on it (short read = io.EOF, write past the end zero-fills the gap).
   Definitions only; proofs are in ClientHistory_lemmas.v. *)
From Coq Require Import ZArith List Bool.
From GCA Require Import Wrap Bytes.
Import ListNotations.
Open Scope Z_scope.

Definition history := bytes.

(* outcome of a function returning (value, error) *)
Inductive res (A : Type) : Type := Ok (a : A) | Err.
Arguments Ok {A} a.
Arguments Err {A}.

(* list operations indexed by Z: they recurse on the list, so a byte offset of
   4e9 costs nothing when the model is evaluated *)
Fixpoint takez (n : Z) (l : bytes) : bytes :=
  match l with
  | [] => []
  | x :: l' => if n <=? 0 then [] else x :: takez (n - 1) l'
  end.
Fixpoint skipz (n : Z) (l : bytes) : bytes :=
  match l with
  | [] => []
  | x :: l' => if n <=? 0 then l else skipz (n - 1) l'
  end.
Definition lenz (l : bytes) : Z := Z.of_nat (List.length l).
Definition zerosz (n : Z) : bytes := zeros (Z.to_nat n).

(* f.ReadAt(data[:4], off): all four bytes or io.EOF *)
Definition read_at4 (h : history) (off : Z) : option Z :=
  if off + 4 <=? lenz h then Some (le_dec (takez 4 (skipz off h))) else None.

(* f.WriteAt(d, off) on a regular file *)
Definition write_at (h : history) (off : Z) (d : bytes) : history :=
  takez off (h ++ zerosz (off - lenz h)) ++ d ++ skipz (off + lenz d) h.

(* loadHistory: ReadAt(offsetBytes[:], 0) must succeed *)
Definition hist_origin (h : history) : option Z := read_at4 h 0.

(* slots addressable with the uint32 byte offset: 4*(1+k) < 2^32 *)
Definition max_slots : Z := 2^30 - 1.

(* byteOffset := 4 * (1 + timeslot - c.staticHistoryOffset)      -- every operation in uint32 *)
Definition byte_offset (origin t : Z) : Z := u32 (4 * u32 (u32 (1 + t) - origin)).

(* staticLoadReading *)
Definition load_reading (h : history) (origin t : Z) : res Z :=
  if t <? origin then Ok 0
  else if max_slots <=? u32 (t - origin) then Err
  else match read_at4 h (byte_offset origin t) with
       | Some v => Ok v
       | None => Ok 0                       (* io.EOF: never written *)
       end.

(* staticSaveReading; Err = an error is returned and nothing is written *)
Definition save_reading (h : history) (origin t v : Z) : res history :=
  if t <? origin then Err
  else if max_slots <=? u32 (t - origin) then Err
  else match load_reading h origin t with
       | Err => Err
       | Ok cur =>
           if cur =? v then Ok h
           else if negb (cur =? 0) then Err
           else Ok (write_at h (byte_offset origin t) (le_enc 4 v))
       end.

(* what the client itself can have written: a header and whole slots *)
Definition hist_wf (h : history) : Prop := 4 <= lenz h /\ lenz h mod 4 = 0.

(* ---- the same two functions WITHOUT the range check (the code before the repair of K3);
        kept to state why the check is needed (c09_offset_wrap_refuted) *)
Definition load_reading_nocheck (h : history) (origin t : Z) : res Z :=
  if t <? origin then Ok 0
  else match read_at4 h (byte_offset origin t) with
       | Some v => Ok v
       | None => Ok 0
       end.
Definition save_reading_nocheck (h : history) (origin t v : Z) : res history :=
  if t <? origin then Err
  else match load_reading_nocheck h origin t with
       | Err => Err
       | Ok cur =>
           if cur =? v then Ok h
           else if negb (cur =? 0) then Err
           else Ok (write_at h (byte_offset origin t) (le_enc 4 v))
       end.

(* ---- operation lists (suite `history`) ---------------------------------- *)
Inductive hop := HSave (t v : Z) | HLoad (t : Z).

(* result of one operation: (ok?, value) ; value is 0 for saves and failed loads *)
Definition hop_step (origin : Z) (h : history) (o : hop) : history * (bool * Z) :=
  match o with
  | HSave t v => match save_reading h origin t v with
                 | Ok h' => (h', (true, 0))
                 | Err => (h, (false, 0))
                 end
  | HLoad t => match load_reading h origin t with
               | Ok x => (h, (true, x))
               | Err => (h, (false, 0))
               end
  end.

Fixpoint hops_run (origin : Z) (h : history) (ops : list hop) : history * list (bool * Z) :=
  match ops with
  | [] => (h, [])
  | o :: ops' => let '(h1, r) := hop_step origin h o in
                 let '(h2, rs) := hops_run origin h1 ops' in (h2, r :: rs)
  end.
