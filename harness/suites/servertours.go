//go:build test && verif

package suites

// Scripted histories ("tours") that deterministically produce the input classes each
// server property names, including the scenarios of the defects found while reading
// (DESIGN.md section 6).

import (
	"encoding/json"
	"fmt"
	"math"
	"math/big"
	"net"
	"os"
	"path/filepath"
	"strings"
	"sync"
	"time"

	"github.com/glowlabs-org/gca-backend/glow"
	"github.com/glowlabs-org/gca-backend/server"
	"verifharness/core"
	"verifharness/srv"
)

func init() {
	tours["slots"] = []func(*core.Result, *core.RNG) (*sim, error){slotsTour}
	tours["weeks"] = []func(*core.Result, *core.RNG) (*sim, error){weeksTour, manyWeeksTour}
	tours["restart"] = []func(*core.Result, *core.RNG) (*sim, error){restartTour, restartFaultTour, manyDevicesTour}
	tours["equip"] = []func(*core.Result, *core.RNG) (*sim, error){equipTour, keyReuseTour, keyReuseBanTour, keyReuseAfterBanTour, manyDevicesTour}
	tours["register"] = []func(*core.Result, *core.RNG) (*sim, error){registerTour, registerRaceTour, damagedKeyTour, zeroKeyTour, archiveBeforeRegistrationTour}
	tours["hostile"] = []func(*core.Result, *core.RNG) (*sim, error){hostileTour, shutdownTour, shutdownStalledPeerTour, manyWeeksTour}
}

func started(res *core.Result, r *core.RNG, name string, now0 uint32, http bool, caps ...uint64) (*sim, error) {
	s, err := newSim(res, r, name, now0, http)
	if err != nil {
		return nil, err
	}
	s.register("valid")
	for _, c := range caps {
		if s.addDevice(c) == nil {
			return s, fmt.Errorf("tour %s: device not authorized", name)
		}
	}
	return s, nil
}

func (s *sim) send(d *device, ts uint32, p uint64) []byte {
	dg := s.a.report(s.w, d, ts, p, d.K)
	s.sent = append(s.sent, dg)
	s.deliverReport(dg, "report")
	return dg
}

func (s *sim) resend(dg []byte, class string) { s.deliverReport(dg, class) }

func (s *sim) sendResigned(d *device, ts uint32, p uint64, nonce uint64) {
	msg := refReportSigningBytes(d.ID, ts, p)
	sig, ok := signWithNonce(msg, d.K, new(big.Int).SetUint64(nonce))
	if !ok || !glow.Verify(d.K.Pub, msg, sig) {
		return
	}
	s.w.Sigs = append(s.w.Sigs, srv.SigTriple{Key: append([]byte{}, d.K.Pub[:]...), Msg: msg, Sig: append([]byte{}, sig[:]...)})
	s.deliverReport(refReportBytes(d.ID, ts, p, sig), "resigned-same-content")
}

// ---------------------------------------------------------------- C02
func slotsTour(res *core.Result, r *core.RNG) (*sim, error) {
	s, err := started(res, r, "slots-tour", 1000, false, 1000, 1000, (1<<64-1)/135+5)
	if err != nil {
		return s, err
	}
	res.Count("slots.tour")
	d0, d1, big := s.a.Devices[0], s.a.Devices[1], s.a.Devices[2]
	t := s.w.Now - 200
	a := s.send(d0, t, 500) // A only
	s.resend(a, "replay")
	s.resend(a, "replay")
	a2 := s.send(d0, t+1, 500) // A then A' (same content, other signature)
	s.sendResigned(d0, t+1, 500, 12345)
	s.resend(a2, "replay")
	s.send(d0, t+2, 500) // A then B
	s.send(d0, t+2, 501)
	s.send(d0, t+2, 500)  // banned stays banned
	s.send(d0, t+3, 1350) // exactly at the limit
	s.send(d0, t+4, 1351) // one above
	s.send(d0, t+5, 1<<63-2)
	s.send(d0, t+6, 1<<63-1) // largest non-negative value: over capacity
	s.send(d0, t+7, 1<<63)   // negative encodings are exempt
	s.send(d0, t+8, 1<<64-1)
	s.send(d0, t+4, 7) // after an over-capacity ban
	// another device, same slots: independence
	s.send(d1, t, 600)
	s.send(d1, t+2, 601)
	// permutations of the same multiset on two slots of two devices
	x1, y1 := s.a.report(s.w, d0, t+20, 300, d0.K), s.a.report(s.w, d0, t+20, 301, d0.K)
	x2, y2 := s.a.report(s.w, d1, t+20, 300, d1.K), s.a.report(s.w, d1, t+20, 301, d1.K)
	for _, g := range [][]byte{x1, y1, x1} {
		s.deliverReport(g, "report")
	}
	for _, g := range [][]byte{y2, x2, x2} {
		s.deliverReport(g, "report")
	}
	// a capacity whose 135% does not fit 64 bits: nothing non-negative can exceed it
	s.send(big, t, 1<<63-1)
	s.send(big, t+1, (1<<64-1)/135+6)
	// capacities at which the high word of capacity*135 changes around 100 (the quotient by 100 stops
	// fitting 64 bits there), and the largest capacity: a report within capacity is stored as it is
	for _, c := range capBoundaries() {
		if d := s.addDevice(c); d != nil {
			s.res.Count("slots.capacity-boundary")
			s.send(d, t+30, 5000)
			s.send(d, t+31, 1<<63-1)
			s.send(d, t+32, 1<<63)
		}
	}
	s.w.SnapHop()
	for _, d := range s.a.Devices {
		s.w.Sync(d.ID, true)
	}
	s.stats("live1", false)
	s.restart(s.w.Now)
	return s, nil
}

// ---------------------------------------------------------------- C03
func weeksTour(res *core.Result, r *core.RNG) (*sim, error) {
	s, err := started(res, r, "weeks-tour", 100, false, 1000, 5000)
	if err != nil {
		return s, err
	}
	res.Count("weeks.tour")
	s.allSpellings = true
	d0, d1 := s.a.Devices[0], s.a.Devices[1]
	w := s.w
	for _, now := range []uint32{100, 1000, 2015, 2016, 2017, 3000} {
		w.SetNow(now)
		s.send(d0, now, 400+uint64(now))
		s.send(d1, now-1, 100)
		if now == 2016 {
			s.send(d1, now, 9000) // over capacity -> banned slot in the second half
		}
		s.forceNegZero = now == 1000 || now == 2017 // -0 rates in both halves: archived, served, reloaded like any value
		s.impactRound(nil)
	}
	// fill a few hundred slots of the first week: the random insert_false_negatives rewrite touches ~2% of them
	for _, now := range []uint32{432, 1296} {
		w.SetNow(now)
		for ts := now - 200; ts < now+200; ts += 2 {
			s.send(d1, ts, 30+uint64(ts))
		}
	}
	w.SetNow(3000)
	s.stats("live1", false)
	s.stats("live2", false)
	s.stats("future", false)
	s.stats("huge", false)
	s.stats("misaligned", false)
	s.stats("live1", true)
	s.stats("live1", false)
	w.SetNow(3201)
	s.rotateTick() // rotates: week 0 archived
	s.stats("archived", false)
	s.stats("archived", true) // must not rewrite the archive
	s.stats("archived", false)
	s.stats("misaligned-archived", false)
	s.stats("misaligned-archived", true)
	s.stats("live1", false)
	w.SnapHop()
	w.SetNow(5300)
	s.send(d0, 5300, 321)
	// second rotation -- it happens while the impact job is between its listing and its first write:
	// the rates it was given must land at their own timeslots of the rotated window (or nowhere)
	rotated := false
	s.impactRound(func() {
		if !rotated {
			rotated = true
			s.rotateTick()
		}
	})
	s.rotateTick()
	s.stats("archived", true)
	s.stats("archived", false)
	s.restart(w.Now)
	s.stats("archived", false)
	// the clock is stepped back behind the window start: the rotation check must not rotate (its oracle
	// compares with the mathematical distance), reports of that time are outside the window
	back := w.Now
	if off := w.S.VerifSnapshot().Offset; off > 300 {
		w.SetNow(off - 200)
		s.rotateTick()
		s.res.Count("rotate.clock-behind-window")
		s.send(d0, w.Now, 555)
		w.SetNow(back)
	}
	s.restart(w.Now + 6100) // start-up catch-up: several weeks at once
	s.stats("archived", true)
	s.stats("archived", false)
	s.stats("live1", false)
	return s, nil
}

// more than a hundred archived weeks (the server was down for two years: start-up catch-up), a restart,
// and every archived week -- the oldest ones included -- is served as before
func manyWeeksTour(res *core.Result, r *core.RNG) (*sim, error) {
	s, err := newSim(res, r, "weeks-many", 2016*108+10, false)
	if err != nil {
		return nil, err
	}
	res.Count("weeks.many")
	s.register("valid")
	d := s.addDevice(1000)
	if d != nil {
		s.send(d, s.w.Now, 420)
	}
	ask := func() bool {
		sn := s.w.S.VerifSnapshot()
		for _, k := range []int{0, 1, 2, 3, 50, len(sn.History) - 2, len(sn.History) - 1} {
			if k < 0 || k >= len(sn.History) {
				continue
			}
			tso := uint32(k) * 2016
			ads, rr := s.w.Stats(tso, false, true, "archived")
			if rr.Panicked || rr.Err != nil {
				s.fail(fmt.Sprintf("the statistics request for archived week %d (of %d) panics the handler", tso, len(sn.History)), "panic-stats")
				return false
			}
			if ads == nil || ads.TimeslotOffset != tso {
				s.fail(fmt.Sprintf("archived week %d (of %d archived weeks) is not served", tso, len(sn.History)), "c03-refused-valid-week")
				return false
			}
		}
		return true
	}
	if !ask() {
		s.abandon()
		return s, nil
	}
	s.restart(s.w.Now)
	if !ask() {
		s.abandon() // a handler that panicked may have kept the server lock
		return s, nil
	}
	s.stats("live1", false)
	return s, nil
}

// abandon gives up on a world whose server may be wedged: the history so far is recorded, the server is
// closed in the background (it may never finish) and the tour ends.
func (s *sim) abandon() {
	s.alive = false
	s.closedTerm = s.w.CoqCase()
	s.res.Case(map[string]interface{}{"ops": s.w.Desc}, s.closedTerm, true)
	s.w.Detach()
}

// ---------------------------------------------------------------- C04
func restartTour(res *core.Result, r *core.RNG) (*sim, error) {
	s, err := started(res, r, "restart-tour", 500, false, 1000, 1000)
	if err != nil {
		return s, err
	}
	res.Count("restart.tour")
	d0, d1 := s.a.Devices[0], s.a.Devices[1]
	s.send(d0, 500, 300)
	s.send(d0, 501, 300)
	s.send(d0, 501, 301) // banned slot
	s.send(d1, 500, 5000)
	if !s.restart(s.w.Now) {
		return s, nil
	}
	// conflict-ban a device that has persisted reports, then restart (D2)
	ea := d1.Auth
	ea.Capacity++
	ea.Signature = s.w.Sign(ea.SigningBytes(), s.a.GCA)
	s.authorize(ea, "conflict-field")
	if !s.restart(s.w.Now) {
		return s, nil
	}
	if !s.restart(s.w.Now) { // idempotent
		return s, nil
	}
	s.w.SetNow(900)
	s.send(d0, 900, 333)
	if !s.restart(s.w.Now + 3700) { // one catch-up rotation at start-up
		return s, nil
	}
	s.send(d0, s.w.Now, 334)
	if !s.restart(s.w.Now + 8300) { // several
		return s, nil
	}
	s.restart(s.w.Now)
	return s, nil
}

// more devices than fit any one buffer of a reader (40 records of 148 bytes), a ban in the middle of the
// file, restarts: every record of the equipment file is read back whole, in order
func manyDevicesTour(res *core.Result, r *core.RNG) (*sim, error) {
	s, err := started(res, r, "devices-many", 700, false, 1000)
	if err != nil {
		return s, err
	}
	res.Count("equip.many-devices")
	for i := 0; i < 39; i++ {
		if s.addDevice(uint64(500+i)) == nil {
			return s, nil // the oracle of authorize has reported it
		}
	}
	s.send(s.a.Devices[33], 700, 77)
	if !s.restart(s.w.Now) {
		return s, nil
	}
	ea := s.a.Devices[20].Auth
	ea.Debt++
	ea.Signature = s.w.Sign(ea.SigningBytes(), s.a.GCA)
	s.authorize(ea, "conflict-field")
	s.authorize(s.a.Devices[39].Auth, "duplicate")
	if !s.restart(s.w.Now) {
		return s, nil
	}
	s.send(s.a.Devices[39], 701, 78)
	s.send(s.a.Devices[20], 701, 79) // banned
	s.restart(s.w.Now)
	return s, nil
}

// ---------------------------------------------------------------- C06
func equipTour(res *core.Result, r *core.RNG) (*sim, error) {
	s, err := newSim(res, r, "equip-tour", 300, true)
	if err != nil {
		return nil, err
	}
	res.Count("equip.tour")
	s.authorizeVariant("before-registration")
	s.register("valid")
	for i := 0; i < 4; i++ {
		s.addDevice(1000)
	}
	d0, d1 := s.a.Devices[0], s.a.Devices[1]
	s.send(d0, 300, 444)
	s.send(d1, 300, 445)
	for _, k := range []string{"duplicate", "bad-signature", "foreign-signature"} {
		s.authorizeVariant(k)
	}
	// the published authorization of a live device with its signature replaced by the non-canonical twin
	// (r, n-s), which anybody can compute: not a signature of the GCA, so it must bounce (were it accepted
	// it would be a "different" authorization for the id and ban the device)
	{
		tw := d1.Auth
		tw.Signature = malleate(d1.Auth.Signature)
		before := s.w.S.VerifSnapshot()
		s.res.Count("authorize.malleated-twin")
		s.authorize(tw, "bad-signature")
		if after := s.w.S.VerifSnapshot(); viewJSON(before, true) != viewJSON(after, true) {
			s.fail(fmt.Sprintf("an authorization carrying the non-canonical twin of the GCA's signature changed the server state (device %d banned: %v)", d1.ID, after.Equipment[d1.ID].ShortID != d1.ID), "c06-malleable-authorization")
		}
	}
	// conflict that carries ANOTHER live device's key (D3): device 0 is banned, device 1 must keep its lookup
	ea := d0.Auth
	ea.PublicKey = d1.K.Pub
	ea.Signature = s.w.Sign(ea.SigningBytes(), s.a.GCA)
	s.authorize(ea, "conflict-other-key")
	hexk := fmt.Sprintf("%x", d1.K.Pub[:])
	if rr := s.w.Raw("GET", "/api/v1/recent-reports?publicKey="+hexk, nil); rr.Status != 200 {
		s.fail("recent reports of an untouched device are no longer served after another id was banned", "c06-other-device-lookup")
	}
	// a device with the boundary id 0 holds reports; lookups for the banned device's key, for a key that
	// was never authorized and for the live devices go through the real endpoint and the model
	dzero := &device{ID: 0, K: srv.DetKey(s.r), Cap: 1000}
	dzero.Auth = s.mkAuth(dzero, s.a.GCA)
	if ob := s.authorize(dzero.Auth, "new"); strings.Contains(ob, "Accepted true") {
		s.a.Devices = append(s.a.Devices, dzero)
		s.send(dzero, 300, 321)
		s.res.Count("equip.id-zero")
	}
	for _, k := range []glow.PublicKey{d0.K.Pub, srv.DetKey(s.r).Pub, d1.K.Pub, dzero.K.Pub} {
		found, slots, _ := s.w.Recent(k, "lookup")
		if found && (k == d0.K.Pub) {
			s.fail(fmt.Sprintf("recent reports are served for the key of a banned device (%d slots of another device's window)", len(slots)), "c06-banned-key-served")
		}
	}
	s.w.Sync(d0.ID, true)
	s.w.Sync(d1.ID, true)
	s.deliverReport(s.a.report(s.w, d0, 301, 446, d0.K), "report") // banned: refused
	s.authorizeVariant("banned-id")
	s.authorizeVariant("conflict-field")
	// a device at latitude +0 / longitude -0, then a second authorization that differs ONLY in the sign of
	// a zero coordinate: different signing bytes, hence a conflict (ban), both live and after restart
	dz := s.newDevice(1000)
	eaz := glow.EquipmentAuthorization{ShortID: dz.ID, PublicKey: dz.K.Pub, Latitude: 0, Longitude: math.Copysign(0, -1), Capacity: 1000, Expiration: 1 << 30}
	eaz.Signature = s.w.Sign(eaz.SigningBytes(), s.a.GCA)
	dz.Auth = eaz
	if ob := s.authorize(eaz, "new"); strings.Contains(ob, "Accepted true") {
		s.a.Devices = append(s.a.Devices, dz)
		s.authorize(eaz, "duplicate")
		ez2 := eaz
		ez2.Latitude = math.Copysign(0, -1)
		ez2.Signature = s.w.Sign(ez2.SigningBytes(), s.a.GCA)
		s.res.Count("authorize.conflict-signed-zero")
		s.authorize(ez2, "conflict-signed-zero")
	}
	// the evidence of a conflict cannot be written (the authorization log is not writable): whatever the
	// answer, the server's view after the next restart must equal its view now -- a ban that exists in
	// memory only would be gone after the restart
	s.authorizeConflictWithWriteFault()
	// a conflicting authorization bans a device while the impact job is between its listing and that
	// device's write: the ban must go through like any other, the job must survive it
	hit := false
	s.impactRound(func() {
		if hit {
			return
		}
		hit = true
		if live := s.liveDevices(); len(live) > 1 {
			d := live[len(live)-1]
			ea := d.Auth
			ea.Capacity += 3
			ea.Signature = s.w.Sign(ea.SigningBytes(), s.a.GCA)
			s.res.Count("authorize.conflict-during-impact-job")
			s.authorize(ea, "conflict-field")
		}
	})
	s.w.SnapHop()
	s.restart(s.w.Now)
	s.authorizeVariant("banned-id")
	s.w.Sync(d0.ID, true)
	return s, nil
}

// C04 with a storage fault: a registration whose key file cannot be written is refused and leaves no
// trace in memory either (otherwise the running server honours a key that is gone after the restart,
// and authorizations it accepted meanwhile make the next start fail); then the ordinary sequence
func restartFaultTour(res *core.Result, r *core.RNG) (*sim, error) {
	s, err := newSim(res, r, "restart-fault", 500, true)
	if err != nil {
		return nil, err
	}
	res.Count("restart.write-fault-tour")
	s.registerWithWriteFault()
	s.authorizeVariant("before-registration")
	if !s.restart(s.w.Now) {
		return s, nil
	}
	s.register("valid")
	s.addDevice(1000)
	s.registerWithWriteFault()
	s.addDevice(1000)
	s.restart(s.w.Now)
	return s, nil
}

// K4: a fresh id authorized with a key that another live device uses.
func keyReuseTour(res *core.Result, r *core.RNG) (*sim, error) {
	s, err := started(res, r, "equip-k4", 300, false, 1000)
	if err != nil {
		return s, err
	}
	d0 := s.a.Devices[0]
	d := s.newDevice(2000)
	d.K = d0.K
	ea := s.mkAuth(d, s.a.GCA)
	s.res.Count("authorize.fresh-id-reuses-key")
	s.w.Authorize(ea, "fresh-id-reuses-key")
	s.w.SnapHop()
	// the server's own consistency check: run it here so that this specific history carries its own key
	term := s.w.CoqCase()
	s.res.Case(map[string]interface{}{"ops": s.w.Desc}, term, true)
	if p := s.w.Close(); p != "" {
		s.res.Fail("a fresh id authorized with a public key that another live device uses overwrites that device's key lookup; CheckInvariants panics: "+p,
			"k4-fresh-id-reuses-key", map[string]interface{}{"history": s.w.Desc})
	}
	s.alive = false
	s.closedTerm = term // the history was registered above; finish only adds the term
	return s, nil
}

// K4 continued: after the key reuse the FIRST device is banned by a conflicting authorization.  It must be
// gone like any banned device although its key lookup now points at the other id, its reports must
// bounce, and the state (consistent again) must survive a restart unchanged.
func keyReuseBanTour(res *core.Result, r *core.RNG) (*sim, error) {
	s, err := started(res, r, "equip-k4-ban", 300, false, 1000)
	if err != nil {
		return s, err
	}
	d0 := s.a.Devices[0]
	d := s.newDevice(2000)
	d.K = d0.K
	ea := s.mkAuth(d, s.a.GCA)
	d.Auth = ea
	s.res.Count("authorize.fresh-id-reuses-key")
	ob := s.w.Authorize(ea, "fresh-id-reuses-key")
	eb := d0.Auth
	eb.Capacity += 7
	eb.Signature = s.w.Sign(eb.SigningBytes(), s.a.GCA)
	s.authorize(eb, "conflict-field")
	s.deliverReport(s.a.report(s.w, d0, s.w.Now, 777, d0.K), "report")
	s.w.Sync(d0.ID, true)
	s.w.Recent(d0.K.Pub, "key shared by the banned and the live id")
	s.w.SnapHop()
	s.res.Count("equip.k4-then-ban")
	if strings.Contains(ob, "Accepted true") {
		s.a.Devices = append(s.a.Devices, d)
	}
	s.restart(s.w.Now)
	return s, nil
}

// a key freed by a ban is used again for a new id (legitimate: the key is not live any more); the
// start-up replay of the authorization log must give the same lookup whatever order it visits ids in,
// so the state is compared over several restarts
func keyReuseAfterBanTour(res *core.Result, r *core.RNG) (*sim, error) {
	s, err := started(res, r, "equip-reuse-after-ban", 300, false, 1000, 1000, 1000)
	if err != nil {
		return s, err
	}
	for _, d0 := range append([]*device{}, s.a.Devices...) {
		eb := d0.Auth
		eb.Debt += 5
		eb.Signature = s.w.Sign(eb.SigningBytes(), s.a.GCA)
		s.authorize(eb, "conflict-field")
		d := s.newDevice(1500)
		d.K = d0.K
		d.Auth = s.mkAuth(d, s.a.GCA)
		if ob := s.authorize(d.Auth, "new"); strings.Contains(ob, "Accepted true") {
			s.a.Devices = append(s.a.Devices, d)
			s.send(d, s.w.Now, 640)
		}
	}
	s.res.Count("equip.key-reused-after-ban")
	s.w.SnapHop()
	for i := 0; i < 5 && s.alive; i++ {
		s.restart(s.w.Now)
		for _, d := range s.liveDevices() {
			if found, _, _ := s.w.Recent(d.K.Pub, "after restart"); !found {
				s.fail(fmt.Sprintf("after a restart the recent reports of live device %d (whose key belonged to a device banned earlier) are not found by its key", d.ID), "c06-lookup-lost-after-restart")
			}
		}
	}
	return s, nil
}

// ---------------------------------------------------------------- C07
func registerTour(res *core.Result, r *core.RNG) (*sim, error) {
	s, err := newSim(res, r, "register-tour", 10, true)
	if err != nil {
		return nil, err
	}
	res.Count("register.tour")
	s.authorizeVariant("before-registration")
	for _, k := range []string{"wrong-signer", "altered-key", "prefixless", "by-gca"} {
		s.register(k)
	}
	s.authorizeVariant("before-registration")
	s.registerWithWriteFault()
	s.register("valid")
	for _, k := range []string{"valid", "other-valid", "by-gca", "wrong-signer"} {
		s.register(k)
	}
	s.addDevice(1000)
	s.restart(s.w.Now)
	for _, k := range []string{"valid", "other-valid", "by-gca"} {
		s.register(k)
	}
	// only the registered key's signatures are honoured afterwards
	s.authorizeVariant("foreign-signature")
	s.addDevice(1000)
	return s, nil
}

// the key file of a registered server is damaged (one byte short) while the server is down: a start on
// that directory either refuses or comes up registered -- never with the registration open again
func damagedKeyTour(res *core.Result, r *core.RNG) (*sim, error) {
	s, err := newSim(res, r, "register-damaged", 10, true)
	if err != nil {
		return nil, err
	}
	s.register("valid")
	s.w.SnapHop()
	now := s.w.Now
	if p := s.w.CloseServer(); p != "" {
		s.fail("server consistency check (CheckInvariants) panics at shutdown: "+p, "checkinvariants-panic")
	}
	s.alive = false
	img := fmt.Sprintf("%s-shortkey", s.w.Dir)
	if srv.CopyDir(s.w.Dir, img) != nil {
		return s, nil
	}
	kf := filepath.Join(img, "gcaPubKey.dat")
	b, err := os.ReadFile(kf)
	if err != nil || len(b) != 32 {
		os.RemoveAll(img)
		s.fail("a registered server has no 32-byte key file after shutdown", "c07-key-file-missing")
		return s, nil
	}
	os.WriteFile(kf, b[:31], 0644)
	started, sn, _, pan := s.w.RecoverImage(srv.CrashImage{Dir: img, Now: now, OpSeq: len(s.w.Hops)})
	s.res.Count("register.damaged-key-file")
	if pan != "" {
		s.fail("start-up on a directory with a damaged GCA key file panics: "+pan, "c07-damaged-key-panic")
	} else if started && !sn.GCAAvailable {
		s.fail("a registered server whose key file lost a byte starts with the registration open again: the temporary-key holder can install another GCA key", "c07-registration-reopened")
	}
	return s, nil
}

// the first accepted registration names the all-zero key: the server is registered like with any other
// key (later registrations bounce, also after a restart)
func zeroKeyTour(res *core.Result, r *core.RNG) (*sim, error) {
	s, err := newSim(res, r, "register-zero", 10, true)
	if err != nil {
		return nil, err
	}
	s.register("zero-key")
	for _, k := range []string{"valid", "other-valid", "zero-key"} {
		s.register(k)
	}
	s.restart(s.w.Now)
	for _, k := range []string{"valid", "other-valid"} {
		s.register(k)
	}
	return s, nil
}

// an archive is requested from a server nobody has registered yet (the request is refused, the key file
// does not exist), the server restarts, and then its GCA registers: the registration is accepted
func archiveBeforeRegistrationTour(res *core.Result, r *core.RNG) (*sim, error) {
	s, err := newSim(res, r, "register-after-archive", 10, true)
	if err != nil {
		return nil, err
	}
	for _, m := range []string{"GET", "GET"} {
		s.w.Raw(m, "/api/v1/archive", nil)
	}
	s.res.Count("register.after-archive-and-restart")
	s.restart(s.w.Now)
	s.register("valid")
	s.addDevice(1000)
	s.restart(s.w.Now)
	return s, nil
}

// many simultaneous registrations: exactly one succeeds (supporting test for the concurrent clause)
func registerRaceTour(res *core.Result, r *core.RNG) (*sim, error) {
	s, err := newSim(res, r, "register-race", 10, true)
	if err != nil {
		return nil, err
	}
	n := 16
	keys := make([]srv.Key, n)
	bodies := make([][]byte, n)
	for i := range keys {
		keys[i] = srv.DetKey(r)
		reg := server.GCARegistration{GCAKey: keys[i].Pub}
		reg.Signature = s.w.Sign(reg.SigningBytes(), s.w.Temp)
		bodies[i], _ = json.Marshal(reg)
	}
	status := make([]int, n)
	var wg sync.WaitGroup
	start := make(chan struct{})
	for i := 0; i < n; i++ {
		wg.Add(1)
		go func(i int) {
			defer wg.Done()
			<-start
			status[i] = s.w.Raw("POST", "/api/v1/register-gca", bodies[i]).Status
		}(i)
	}
	time.Sleep(2 * time.Millisecond) // every sender is parked on the barrier
	close(start)
	wg.Wait()
	wins := 0
	win := -1
	for i, st := range status {
		if st == 200 {
			wins++
			win = i
		}
	}
	res.Count("register.concurrent-batch")
	if wins != 1 {
		s.fail(fmt.Sprintf("%d of %d simultaneous registrations succeeded", wins, n), "c07-concurrent-registrations")
		s.alive = false
		return s, nil
	}
	sn := s.w.S.VerifSnapshot()
	if sn.GCAKey != keys[win].Pub {
		s.fail("the installed GCA key is not the key of the registration that was answered 200", "c07-concurrent-key")
	}
	// make the recorded history sequential for the model: the winner first
	s.w.Hops = append(s.w.Hops, fmt.Sprintf("HOp (OpRegister %s %s) (ObsAccepted true)", srv.H(keys[win].Pub[:]), srv.H(sigOf(bodies[win]))))
	s.w.Desc = append(s.w.Desc, map[string]interface{}{"op": "register", "note": "winner of a concurrent batch of 16"})
	s.a.GCA = keys[win]
	s.regDone = true
	// losers signed by the temporary key and candidates that lost the race cannot authorize anything
	loser := keys[(win+1)%n]
	d := s.newDevice(1000)
	s.authorize(s.mkAuth(d, loser), "foreign-signature")
	s.addDevice(1000)
	return s, nil
}

func sigOf(body []byte) []byte {
	var reg server.GCARegistration
	json.Unmarshal(body, &reg)
	return reg.Signature[:]
}

// ---------------------------------------------------------------- C12
func hostileTour(res *core.Result, r *core.RNG) (*sim, error) {
	s, err := started(res, r, "hostile-tour", 2016+3999, true, 1000, 1000)
	if err != nil {
		return s, err
	}
	res.Count("hostile.tour")
	w := s.w
	d0 := s.a.Devices[0]
	sn := w.S.VerifSnapshot()
	off := sn.Offset
	// datagrams at the extreme clock/offset configurations
	for _, dn := range []uint32{0, 3599, 3600, 3601, 4000, 4031, 4032, 4033, 4464, 8064, 8065} {
		w.SetNow(off + dn)
		for _, dt := range []int64{-433, -432, 0, 431, 432} {
			ts := int64(w.Now) + dt
			if ts >= 0 {
				s.deliverReport(s.a.report(w, d0, uint32(ts), 700, d0.K), "report")
			}
		}
		s.deliverReport(s.a.report(w, d0, off+4031, 700, d0.K), "report")
		s.deliverReport(s.a.report(w, d0, off+4032, 700, d0.K), "report")
		s.deliverReport(s.a.report(w, d0, off+4033, 700, d0.K), "report")
		s.impactRound(nil)
		s.stats("live2", false)
	}
	w.SetNow(off + 100)
	// every endpoint, wrong methods, junk queries and bodies
	paths := []string{"/api/v1/all-device-stats", "/api/v1/authorized-servers", "/api/v1/authorize-equipment", "/api/v1/equipment", "/api/v1/equipment-migrate",
		"/api/v1/register-gca", "/api/v1/recent-reports", "/api/v1/archive", "/api/v1/nope"}
	bodies := [][]byte{nil, []byte(""), []byte("{"), []byte("null"), []byte("[]"), []byte(`{"ShortID":-1}`), []byte(`{"PublicKey":[1,2,3]}`), []byte(`{"NewServers":[{}]}`), r.Bytes(300),
		[]byte(`{"Latitude":1e999}`), []byte(strings.Repeat("[", 5000))}
	queries := []string{"", "?timeslot_offset=", "?timeslot_offset=-1", "?timeslot_offset=4294967296", "?timeslot_offset=4294965248", "?timeslot_offset=2016&insert_false_negatives=true",
		"?timeslot_offset=abc", "?publicKey=", "?publicKey=zz", "?publicKey=00", "?publicKey=" + strings.Repeat("ab", 32), "?publicKey=" + strings.Repeat("ab", 33), "?%zz"}
	n := 0
	for _, p := range paths {
		for _, m := range []string{"GET", "POST", "PUT", "DELETE", "HEAD"} {
			for _, q := range queries {
				b := bodies[n%len(bodies)]
				n++
				rr := w.Raw(m, p+q, b)
				res.Count("http.request")
				if rr.Panicked {
					s.fail(fmt.Sprintf("HTTP handler panics: %s %s%s", m, p, q), "panic-http:"+p)
				}
			}
		}
	}
	for _, p := range paths {
		for _, b := range bodies {
			rr := w.Raw("POST", p, b)
			res.Count("http.request")
			if rr.Panicked {
				s.fail(fmt.Sprintf("HTTP handler panics: POST %s with body %q", p, trunc(b)), "panic-http:"+p)
			}
		}
	}
	// a statistics request for the week being rotated out arrives while the rotation is writing that week
	{
		sn0 := w.S.VerifSnapshot()
		w.SetNow(sn0.Offset + 3300)
		resp := make(chan srv.HTTPResult, 1)
		fired := false
		srv.SetHook("crash.point", func() {
			if fired {
				return
			}
			fired = true
			go func() {
				resp <- w.Raw("GET", fmt.Sprintf("/api/v1/all-device-stats?timeslot_offset=%d", sn0.Offset), nil)
			}()
			time.Sleep(40 * time.Millisecond)
		})
		tickDone := make(chan struct{})
		go func() { s.rotateTick(); close(tickDone) }()
		select {
		case <-tickDone:
		case <-time.After(8 * time.Second):
			srv.SetHook("crash.point", nil)
			res.Count("stats.during-rotation")
			s.fail(fmt.Sprintf("a statistics request for week %d arriving while the rotation writes that week wedges the server: the rotation check never completes (the server lock stays held)", sn0.Offset), "c12-stats-during-rotation")
			s.abandon()
			return s, nil
		}
		srv.SetHook("crash.point", nil)
		if fired {
			res.Count("stats.during-rotation")
			select {
			case rr := <-resp:
				if rr.Panicked || rr.Err != nil {
					s.fail(fmt.Sprintf("a statistics request for week %d arriving while the rotation writes that week makes the handler panic (the server lock stays held)", sn0.Offset), "c12-stats-during-rotation")
				}
			case <-time.After(4 * time.Second):
				s.fail("a statistics request arriving during a week rotation is never answered", "c12-stats-during-rotation")
			}
			pr := make(chan bool, 1)
			go func() { pr <- w.Raw("GET", "/api/v1/equipment", nil).Status == 200 }()
			select {
			case ok := <-pr:
				if !ok {
					s.fail("the server does not answer after a statistics request met a week rotation", "c12-liveness")
				}
			case <-time.After(4 * time.Second):
				s.fail("the server hangs after a statistics request met a week rotation (the lock is never released)", "c12-stats-during-rotation")
				s.abandon()
				return s, nil
			}
		}
	}
	// an authorized peer server that is down: forwarding must not panic (D5)
	peer := srv.DetKey(r)
	as := server.AuthorizedServer{PublicKey: peer.Pub, Location: "127.0.0.1", HttpPort: 1, TcpPort: 1, UdpPort: 1}
	as.GCAAuthorization = glow.Sign(as.SigningBytes(), s.a.GCA.Priv)
	j, _ := json.Marshal(as)
	if rr := w.Raw("POST", "/api/v1/authorized-servers", j); rr.Panicked {
		s.fail("authorizing a server that is unreachable panics the handler", "panic-http:peer-down-server")
	}
	res.Count("peer.down")
	w.UseHTTP = true
	if ob := s.authorize(s.mkAuth(s.newDevice(1000), s.a.GCA), "new-with-peer-down"); ob == "ObsPanic" {
		s.fail("authorizing equipment while an authorized peer server is down panics the handler", "panic-http:peer-down-equipment")
	}
	// an authorized peer that accepts connections and never answers: the handler that forwards to it may
	// wait, but nobody else does -- the server list and the TCP sync keep answering meanwhile
	{
		ln, lerr := net.Listen("tcp", "127.0.0.1:0")
		if lerr == nil {
			var held []net.Conn
			var hmu sync.Mutex
			go func() {
				for {
					c, err := ln.Accept()
					if err != nil {
						return
					}
					hmu.Lock()
					held = append(held, c)
					hmu.Unlock()
				}
			}()
			sp := srv.DetKey(r)
			sas := server.AuthorizedServer{PublicKey: sp.Pub, Location: "127.0.0.1", HttpPort: uint16(ln.Addr().(*net.TCPAddr).Port), TcpPort: 1, UdpPort: 1}
			sas.GCAAuthorization = glow.Sign(sas.SigningBytes(), s.a.GCA.Priv)
			sj, _ := json.Marshal(sas)
			ann := make(chan struct{})
			go func() { w.Raw("POST", "/api/v1/authorized-servers", sj); close(ann) }()
			time.Sleep(50 * time.Millisecond)
			authDone := make(chan string, 1)
			nd := s.newDevice(1000)
			go func() { authDone <- s.authorize(s.mkAuth(nd, s.a.GCA), "new-with-peer-stalled") }()
			time.Sleep(150 * time.Millisecond)
			res.Count("peer.stalled")
			pr := make(chan bool, 1)
			go func() {
				ok := w.Raw("GET", "/api/v1/authorized-servers", nil).Status == 200
				found, _, _, _, _, err := w.Sync(d0.ID, false)
				pr <- ok && err == nil && found
			}()
			alive := false
			select {
			case alive = <-pr:
			case <-time.After(4 * time.Second):
			}
			// release the peer: its connections are closed, the forwarding calls fail and return
			ln.Close()
			hmu.Lock()
			for _, c := range held {
				c.Close()
			}
			hmu.Unlock()
			select {
			case <-authDone:
			case <-time.After(5 * time.Second):
			}
			select {
			case <-ann:
			case <-time.After(5 * time.Second):
			}
			if !alive {
				s.fail("while an authorized peer accepts connections but never answers and a new device is being announced to it, GET /api/v1/authorized-servers and the TCP sync are not answered any more (a lock is held across the call to the peer)", "c12-wedged-by-stalled-peer")
			}
			// the stalled peer is banned so that later operations do not wait for it
			sb := sas
			sb.Banned = true
			sb.GCAAuthorization = glow.Sign(sb.SigningBytes(), s.a.GCA.Priv)
			sbj, _ := json.Marshal(sb)
			w.Raw("POST", "/api/v1/authorized-servers", sbj)
		}
	}
	// ban that server, then announce it again (e.g. a peer that missed the ban re-forwards the old record):
	// every endpoint that takes the server-list lock must keep answering
	asBan := as
	asBan.Banned = true
	asBan.GCAAuthorization = glow.Sign(asBan.SigningBytes(), s.a.GCA.Priv)
	jb, _ := json.Marshal(asBan)
	w.Raw("POST", "/api/v1/authorized-servers", jb)
	w.Raw("POST", "/api/v1/authorized-servers", j)
	w.Raw("POST", "/api/v1/authorized-servers", jb)
	res.Count("peer.ban-reannounce")
	probe := make(chan int, 1)
	go func() { probe <- w.Raw("GET", "/api/v1/authorized-servers", nil).Status }()
	select {
	case st := <-probe:
		if st != 200 {
			s.fail("GET authorized-servers fails after a banned server was announced again", "c12-liveness-serverlist")
		}
	case <-time.After(4 * time.Second):
		s.fail("GET /api/v1/authorized-servers is no longer answered after a banned server was announced again (a lock is held forever)", "c12-wedged-serverlist")
		s.alive = false
		s.abandon() // Close cannot finish: the stuck handlers keep the thread group busy
		return s, nil
	}
	if found, _, _, _, _, err := w.Sync(d0.ID, false); err != nil || !found {
		s.fail("TCP sync is no longer answered after server-list updates", "c12-liveness-sync")
	}
	// TCP sync: garbage, short and unknown-id requests
	_, tp, _ := w.S.Ports()
	for _, req := range [][]byte{{}, {1}, {1, 2, 3}, {0xff, 0xff, 0xff, 0xff}, r.Bytes(100)} {
		c, err := net.DialTimeout("tcp", fmt.Sprintf("127.0.0.1:%d", tp), 2*time.Second)
		if err == nil {
			c.Write(req)
			c.(*net.TCPConn).CloseWrite()
			c.SetReadDeadline(time.Now().Add(2 * time.Second))
			buf := make([]byte, 2048)
			c.Read(buf)
			c.Close()
			res.Count("tcp.request")
		}
	}
	// liveness probe: other requests are still answered
	if rr := w.Raw("GET", "/api/v1/equipment", nil); rr.Status != 200 {
		s.fail("the server stopped answering after hostile input", "c12-liveness")
	}
	return s, nil
}

func trunc(b []byte) string {
	if len(b) > 40 {
		return string(b[:40]) + "..."
	}
	return string(b)
}

// a new device is being announced to an authorized peer that accepts the connection and never answers:
// shutdown must still come to an end (an error after the shutdown budget is acceptable, waiting for the
// peer forever is not)
func shutdownStalledPeerTour(res *core.Result, r *core.RNG) (*sim, error) {
	s, err := started(res, r, "hostile-shutdown-peer", 60, true, 1000)
	if err != nil {
		return s, err
	}
	w := s.w
	ln, lerr := net.Listen("tcp", "127.0.0.1:0")
	if lerr != nil {
		return s, nil
	}
	var held []net.Conn
	var hmu sync.Mutex
	go func() {
		for {
			c, err := ln.Accept()
			if err != nil {
				return
			}
			hmu.Lock()
			held = append(held, c)
			hmu.Unlock()
		}
	}()
	release := func() {
		ln.Close()
		hmu.Lock()
		for _, c := range held {
			c.Close()
		}
		hmu.Unlock()
	}
	sp := srv.DetKey(r)
	sas := server.AuthorizedServer{PublicKey: sp.Pub, Location: "127.0.0.1", HttpPort: uint16(ln.Addr().(*net.TCPAddr).Port), TcpPort: 1, UdpPort: 1}
	sas.GCAAuthorization = glow.Sign(sas.SigningBytes(), s.a.GCA.Priv)
	sj, _ := json.Marshal(sas)
	go w.Raw("POST", "/api/v1/authorized-servers", sj)
	time.Sleep(80 * time.Millisecond)
	term := w.CoqCase()
	s.res.Case(map[string]interface{}{"ops": w.Desc}, term, true)
	s.closedTerm = term
	s.alive = false
	ea := s.mkAuth(s.newDevice(1000), s.a.GCA)
	ej, _ := json.Marshal(ea)
	go w.Raw("POST", "/api/v1/authorize-equipment", ej)
	time.Sleep(250 * time.Millisecond)
	res.Count("shutdown.peer-stalled")
	done := make(chan string, 1)
	t0 := time.Now()
	go func() { done <- w.Close() }()
	select {
	case <-done:
		res.Extra["close_latency_stalled_peer_ms"] = time.Since(t0).Milliseconds()
		release()
	case <-time.After(20 * time.Second):
		s.res.Fail("Close() does not return while a new device is being announced to an authorized peer that accepts the connection and never answers (waited 20 s; the test-mode shutdown budget is 5 s)", "c12-shutdown-blocked-by-peer",
			map[string]interface{}{"peer": "accepts, never answers", "request": "POST /api/v1/authorize-equipment"})
		release()
		select {
		case <-done:
		case <-time.After(10 * time.Second):
			w.Detach()
		}
	}
	return s, nil
}

// idle and half-sent TCP connections must not keep the server from shutting down (D7)
func shutdownTour(res *core.Result, r *core.RNG) (*sim, error) {
	s, err := started(res, r, "hostile-shutdown", 50, false, 1000)
	if err != nil {
		return s, err
	}
	_, tp, _ := s.w.S.Ports()
	var conns []net.Conn
	for i := 0; i < 5; i++ {
		c, err := net.DialTimeout("tcp", fmt.Sprintf("127.0.0.1:%d", tp), 2*time.Second)
		if err != nil {
			continue
		}
		if i%2 == 1 {
			c.Write([]byte{1, 2}) // half-sent request
		}
		conns = append(conns, c)
	}
	// the same on the HTTP port: an idle connection, a half-sent request line, and a POST whose header is
	// complete but whose announced body never arrives (the handler is inside its JSON decode)
	hp, _, _ := s.w.S.Ports()
	for i, pre := range []string{"", "POST /api/v1/authorize-equipment HT",
		"POST /api/v1/authorize-equipment HTTP/1.1\r\nHost: x\r\nContent-Type: application/json\r\nContent-Length: 400\r\n\r\n{\"ShortID\": 5, ",
		"POST /api/v1/register-gca HTTP/1.1\r\nHost: x\r\nContent-Length: 100\r\n\r\n"} {
		c, err := net.DialTimeout("tcp", fmt.Sprintf("127.0.0.1:%d", hp), 2*time.Second)
		if err != nil {
			continue
		}
		c.Write([]byte(pre))
		conns = append(conns, c)
		if i >= 2 {
			res.Count("shutdown.http-partial-body")
		}
	}
	time.Sleep(20 * time.Millisecond)
	res.Count("shutdown.idle-connections")
	term := s.w.CoqCase()
	s.res.Case(map[string]interface{}{"ops": s.w.Desc}, term, true)
	s.closedTerm = term
	done := make(chan string, 1)
	t0 := time.Now()
	go func() { done <- s.w.Close() }()
	select {
	case <-done:
		res.Extra["close_latency_ms"] = time.Since(t0).Milliseconds()
		if s.w.CloseErr != nil {
			s.res.Fail(fmt.Sprintf("Close() fails after %d ms with connections left open (idle, half-sent request, POST with a body that never arrives): %v", time.Since(t0).Milliseconds(), s.w.CloseErr), "c12-shutdown-error",
				map[string]interface{}{"open_connections": len(conns)})
		}
	case <-time.After(15 * time.Second):
		s.res.Fail("Close() does not return while idle TCP connections are open (waited 15 s; the test-mode shutdown budget is 5 s)", "c12-shutdown-blocked",
			map[string]interface{}{"idle_connections": len(conns)})
	}
	for _, c := range conns {
		c.Close()
	}
	s.alive = false
	return s, nil
}

// registerWithWriteFault: the key file cannot be written (a directory sits where the temporary file goes):
// the registration must be refused AND leave no trace -- not recorded for the model, since the state
// must be exactly as before.
func (s *sim) registerWithWriteFault() {
	w := s.w
	blocker := filepath.Join(w.Dir, "gcaPubKey.dat.tmp")
	if os.Mkdir(blocker, 0755) != nil {
		return
	}
	os.WriteFile(filepath.Join(blocker, "x"), []byte("x"), 0644)
	before := w.S.VerifSnapshot()
	cand := srv.DetKey(s.r)
	reg := server.GCARegistration{GCAKey: cand.Pub}
	reg.Signature = glow.Sign(reg.SigningBytes(), w.Temp.Priv)
	j, _ := json.Marshal(reg)
	rr := w.Raw("POST", "/api/v1/register-gca", j)
	after := w.S.VerifSnapshot()
	os.RemoveAll(blocker)
	s.res.Count("register.write-fault")
	if rr.Status == 200 {
		// the platform let the write through (e.g. another write strategy): then it is an ordinary registration
		s.fail("a registration whose key file could not be written was answered 200", "c07-write-fault-accepted")
		return
	}
	if viewJSON(before, true) != viewJSON(after, true) {
		s.fail("a registration that failed to persist (I/O error on the key file) still took effect in memory: the server honours a key it will forget at restart", "c07-set-before-persist")
	}
	if _, err := os.Stat(filepath.Join(w.Dir, "gcaPubKey.dat")); err == nil && !before.GCAAvailable {
		s.fail("a failed registration left a key file behind", "c07-write-fault-file")
	}
}

// capBoundaries: the capacities c where floor(c*135 / 2^64) steps to 99, 100, 101 and 134 (one below, at, one
// above each step), plus the extremes.
func capBoundaries() []uint64 {
	var out []uint64
	two64 := new(big.Int).Lsh(big.NewInt(1), 64)
	for _, k := range []int64{99, 100, 101, 134} {
		c := new(big.Int).Mul(big.NewInt(k), two64)
		c.Add(c, big.NewInt(134))
		c.Div(c, big.NewInt(135)) // smallest c with c*135 >= k*2^64
		u := c.Uint64()
		out = append(out, u-1, u, u+1)
	}
	return append(out, 1<<64-1, 1<<63)
}

// authorizeConflictWithWriteFault: equipment-authorizations.dat is replaced by a directory while a
// conflicting authorization for a live device is submitted, then put back.  The request may fail; the
// in-memory view must then be unchanged (the evidence is not on disk, so nothing may depend on it).
func (s *sim) authorizeConflictWithWriteFault() {
	w := s.w
	live := s.liveDevices()
	if len(live) < 2 {
		return
	}
	d := live[0]
	f := filepath.Join(w.Dir, "equipment-authorizations.dat")
	bak := f + ".moved"
	if os.Rename(f, bak) != nil {
		return
	}
	os.Mkdir(f, 0755)
	before := w.S.VerifSnapshot()
	ea := d.Auth
	ea.Debt += 11
	ea.Signature = glow.Sign(ea.SigningBytes(), s.a.GCA.Priv)
	j, _ := json.Marshal(ea)
	rr := w.Raw("POST", "/api/v1/authorize-equipment", j)
	after := w.S.VerifSnapshot()
	os.Remove(f)
	os.Rename(bak, f)
	s.res.Count("authorize.conflict-write-fault")
	if viewJSON(before, true) != viewJSON(after, true) {
		s.fail(fmt.Sprintf("a conflicting authorization whose evidence could not be written (status %d) still changed the server's memory: device %d is banned now and authorized again after the next restart", rr.Status, d.ID), "c06-ban-not-durable")
	}
}
