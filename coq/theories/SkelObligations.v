(* SkelObligations.v -- the per-run obligations of (T4) over the REGENERATED skeletons
   (gen/SkelServer.v, gen/SkelClient.v), each established by [vm_compute], and the instances of the
   soundness theorem of Skel_lemmas.v that turn them into statements about ALL paths.

   Re-exported by Props/C13.v (server discipline), C11.v (client: no lock held when a sync attempt
   returns), C07.v (registration is one critical section), C12.v (deadline before every blocking read).

   SCOPES.  An obligation names the set of functions whose bodies it covers.  A callee outside the scope
   is assumed to honour its contract (Skel.E_CallAssumed); with the full scope nothing is assumed.
   [server_pending] / [client_pending] list the functions that are known NOT to check on the tree this
   file was last adjusted for; they are to be emptied as the fixes land (see the end of the file). *)
From Coq Require Import String List Bool Arith.
From GCA Require Import Skel Skel_lemmas SkelSpec.
From GCAgen Require SkelServer SkelClient.
Import ListNotations.
Open Scope string_scope.
Open Scope list_scope.

(* ------------------------------------------------------------------ programs and modes *)

Definition server_fns : list fn := derive server_fields server_exempt SkelServer.raw_fns.
Definition client_fns : list fn := derive client_fields client_exempt SkelClient.raw_fns.

(* NetIO while holding a mutex: violation.  Blocking read without deadline: violation.
   Panic while holding a mutex: in [strict] a violation; in [die_on_panic] the process is taken to die
   there (no handler recovers in these packages except net/http around request handlers). *)
Definition die_on_panic : mode := {| m_netio := true; m_panic := false; m_deadline := true |}.
(* the client's connections are dialled, not accepted: the deadline rule is a server property (C12) *)
Definition client_mode : mode := {| m_netio := true; m_panic := false; m_deadline := false |}.

(* functions that do not check on the current tree -- see the list at the end of this file *)
Definition server_pending : list string := [].
Definition client_pending : list string := [].

Definition server_scope : list string := without server_pending (names server_fns).
Definition client_scope : list string := without client_pending (names client_fns).

Definition server_env : env := mk_env server_fields server_exempt server_fns server_scope die_on_panic.
Definition server_env_strict : env :=
  mk_env server_fields server_exempt server_fns
         (without ("GCAServer.migrateReports" :: server_pending) (names server_fns)) strict.
Definition client_env : env := mk_env client_fields client_exempt client_fns client_scope client_mode.

(* ------------------------------------------------------------------ the translation is complete *)

(* nothing was emitted as Unknown; every mutex call of the source is a lock node of some skeleton;
   every declared field is classified; static fields are written only in constructor context;
   the constructor-context facts are closed under the call graph *)
Theorem skel_server_translated :
  SkelServer.unknown_statements = []
  /\ pair_eqb SkelServer.source_lock_calls SkelServer.skeleton_lock_nodes = true
  /\ fields_covered server_fields server_mutexes SkelServer.declared_fields = true
  /\ static_writers_ok server_fields server_fns SkelServer.field_writers = true
  /\ ctor_facts_ok server_fns SkelServer.call_edges = true.
Proof. vm_compute. repeat split; reflexivity. Qed.

Theorem skel_client_translated :
  SkelClient.unknown_statements = []
  /\ pair_eqb SkelClient.source_lock_calls SkelClient.skeleton_lock_nodes = true
  /\ fields_covered client_fields client_mutexes SkelClient.declared_fields = true
  /\ static_writers_ok client_fields client_fns SkelClient.field_writers = true
  /\ ctor_facts_ok client_fns SkelClient.call_edges = true.
Proof. vm_compute. repeat split; reflexivity. Qed.

(* ------------------------------------------------------------------ C13: server lock discipline *)

Theorem skel_server_ok : check_scope server_env = true.
Proof. vm_compute. reflexivity. Qed.

(* the same with "panic while holding a mutex" counted as a violation; migrateReports panics on purpose
   with gcas.mu held when the statistics cannot be built or saved, so it is outside this scope *)
Theorem skel_server_ok_strict_panic : check_scope server_env_strict = true.
Proof. vm_compute. reflexivity. Qed.

(* On every path of every server function in the scope -- through the callees and the goroutines it
   starts -- : no mutex is acquired while one is held, no unlock without (own) lock, every guarded field
   is accessed under its mutex (or in the still-exclusive constructor), static fields are written only in
   constructor context, every call matches the callee's contract, no blocking I/O under a mutex, every
   blocking read on a connection has a deadline, and the function leaves with the lock state it was
   entered with -- at return and at panic, after its defers. *)
Theorem server_paths_disciplined :
  forall f, In f server_fns -> in_scope server_env f = true ->
  forall e, In e (entries (c_kind (f_con f))) ->
  forall u, fn_run server_env f e u ->
    match u with
    | UViol _ => False
    | UPanic => c_panics (f_con f) = true
    | UDie => True
    | UOk => True
    end.
Proof.
  intros f Hf Hs e He u Hu.
  pose proof (check_scope_sound server_env skel_server_ok f Hf Hs e He u Hu) as H.
  destruct u; auto.
Qed.

Theorem server_paths_disciplined_strict :
  forall f, In f server_fns -> in_scope server_env_strict f = true ->
  forall e, In e (entries (c_kind (f_con f))) ->
  forall u, fn_run server_env_strict f e u ->
    match u with
    | UViol _ | UDie => False
    | UPanic => c_panics (f_con f) = true
    | UOk => True
    end.
Proof.
  intros f Hf Hs e He u Hu.
  pose proof (check_scope_sound server_env_strict skel_server_ok_strict_panic f Hf Hs e He u Hu) as H.
  destruct u; auto. discriminate H.
Qed.

(* ------------------------------------------------------------------ C11: client lock balance *)

Theorem skel_client_ok : check_scope client_env = true.
Proof. vm_compute. reflexivity. Qed.

Theorem client_paths_disciplined :
  forall f, In f client_fns -> in_scope client_env f = true ->
  forall e, In e (entries (c_kind (f_con f))) ->
  forall u, fn_run client_env f e u ->
    match u with
    | UViol _ => False
    | UPanic => c_panics (f_con f) = true
    | UDie => True
    | UOk => True
    end.
Proof.
  intros f Hf Hs e He u Hu.
  pose proof (check_scope_sound client_env skel_client_ok f Hf Hs e He u Hu) as H.
  destruct u; auto.
Qed.

(* the sync attempt is in the scope (the obligation above is about it, not about an empty set) *)
Theorem skel_client_sync_in_scope :
  exists f, find_fn client_fns "Client.threadedSyncWithServer" = Some f
            /\ in_scope client_env f = true /\ c_kind (f_con f) = KFree
            /\ mentions (fun t => match t with Lock _ => true | _ => false end) (f_body f) = true.
Proof. vm_compute. eexists. repeat split; reflexivity. Qed.

(* no lock is held when a sync attempt returns: every run that returns (UOk) or panics out (UPanic)
   ends in the entry state HFree; the remaining outcome is process death *)
Corollary client_sync_returns_unlocked :
  forall f, find_fn client_fns "Client.threadedSyncWithServer" = Some f ->
  forall rb, exec client_env (ctx_of f) (f_body f) (init HFree) rb ->
    forall v, finish client_env (ctx_of f) (c_kind (f_con f)) HFree rb <> UViol v.
Proof.
  intros f Hf rb Hex.
  destruct skel_client_sync_in_scope as [f' [Hf' [Hs [Hk _]]]].
  rewrite Hf in Hf'. injection Hf' as <-.
  assert (Hin : In f client_fns) by (apply (find_fn_In _ _ _ Hf)).
  assert (He : In HFree (entries (c_kind (f_con f)))) by (rewrite Hk; left; reflexivity).
  exact (proj2 (no_violation_on_any_path client_env skel_client_ok f Hin Hs HFree He rb Hex)).
Qed.

(* ------------------------------------------------------------------ C07: registration is one section *)

Definition reg_name := "GCAServer.registerGCA".
Definition reg_saver := "GCAServer.saveGCAKey".
Definition reg_loader := "GCAServer.loadGCAPubkey".

Definition callers_of (edges : list (string * string * bool)) (g : string) : list string :=
  flat_map (fun e => match e with (a, b, _) => if String.eqb b g then [a] else [] end) edges.

(* registerGCA is "Lock mu; defer Unlock mu; rest" with no lock operation in rest; rest reads the
   availability flag and calls saveGCAKey; saveGCAKey (contract: mu held) writes the flag and has no lock
   operation; the key and the flag are written by nobody but saveGCAKey and the constructor's
   loadGCAPubkey; saveGCAKey is called by nobody but registerGCA; and these functions check. *)
Theorem skel_register_atomic :
  register_shape server_fns reg_name reg_saver "mu" "gcaPubkeyAvailable" = true
  /\ subset (writers_of SkelServer.field_writers "gcaPubkeyAvailable") [reg_saver; reg_loader] = true
  /\ subset (writers_of SkelServer.field_writers "gcaPubkey") [reg_saver; reg_loader] = true
  /\ subset (callers_of SkelServer.call_edges reg_saver) [reg_name] = true
  /\ fn_ctor server_fns reg_loader = true
  /\ check_scope (mk_env server_fields server_exempt server_fns
                         ["GCAServer.RegisterGCAHandler"; reg_name; reg_saver; reg_loader] strict) = true.
Proof. vm_compute. repeat split; reflexivity. Qed.

(* hence: on every path through the rest of registerGCA, whatever it calls, mu stays held by
   registerGCA from its Lock to its exit -- test and save are one uninterrupted critical section *)
Theorem register_uninterrupted :
  forall f rest, find_fn server_fns reg_name = Some f -> one_section "mu" (f_body f) = Some rest ->
  f_body f = Seq (Lock "mu") (Seq (DeferUnlock "mu") rest) /\
  forall E cx s r, hold_of s = HHeld "mu" true -> exec E cx rest s r ->
    forall s', res_state r = Some s' -> hold_of s' = HHeld "mu" true.
Proof.
  intros f rest _ Hone. split.
  - exact (proj1 (one_section_uninterrupted server_env (ctx_of f) "mu" (f_body f) rest Hone)).
  - intros E cx. exact (proj2 (one_section_uninterrupted E cx "mu" (f_body f) rest Hone)).
Qed.

Example register_section_exists :
  exists f rest, find_fn server_fns reg_name = Some f /\ one_section "mu" (f_body f) = Some rest.
Proof. vm_compute. eexists. eexists. split; reflexivity. Qed.

(* ------------------------------------------------------------------ C12: deadline before blocking read *)

(* the server functions that read from a connection; each checks with the deadline rule on *)
Definition server_readers : list string := readers server_fns.

Theorem skel_sync_deadline :
  server_readers <> []
  /\ check_scope (mk_env server_fields server_exempt server_fns server_readers die_on_panic) = true.
Proof. vm_compute. split; [discriminate | reflexivity]. Qed.

Theorem server_reads_have_deadline :
  forall f, In f server_fns -> mem_str (f_name f) server_readers = true ->
  forall e, In e (entries (c_kind (f_con f))) ->
  forall u, fn_run (mk_env server_fields server_exempt server_fns server_readers die_on_panic) f e u ->
    forall v, u <> UViol v.
Proof.
  intros f Hf Hs e He u Hu v ->.
  exact (check_scope_sound _ (proj2 skel_sync_deadline) f Hf Hs e He _ Hu).
Qed.

(* ------------------------------------------------------------------ bookkeeping *)
(* Status on the tree this file was last adjusted for (repository at 66b8afd): both lists are empty.
     D9  (client, return with c.mu held)       fixed in 7d1d5a7 -- covered by skel_client_ok
     D14 (two unguarded reads of gcaPubkey)    fixed in d27b586 -- covered by skel_server_ok
     D7  (blocking read without deadline)      fixed in 23c2bbd -- covered by skel_sync_deadline
     migrateReports panics with gcas.mu held (equipment.go, two places) and the client's
       threadedSyncWithServer panics with c.mu held (reports.go, six places): deliberate "cannot
       continue" panics in goroutines nobody recovers; covered in the die_on_panic / client modes,
       migrateReports is excluded BY NAME from skel_server_ok_strict_panic.
     client.staticServerSync reads a dialled connection without a deadline (reports.go): outside
       C12 (not an accepted connection); visible by switching m_deadline on in client_mode.
   To take a function out of an obligation while a fix is pending, add its name (as printed by
   [diagnose]) to [server_pending] / [client_pending]; nothing else needs editing. *)
