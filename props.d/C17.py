# C17 -- see DESIGN.md section 5
PROP = {
    "props_v": "Props/C17.v",
    "extra_v": ["ClientSyncRun.v"],
    "suites": [("test", "serverlist"), ("test", "migrate")],
    "run_vo": "ClientSyncRun.vo",
    "assumptions": [
        "signature verification is an arbitrary function in the theorems; in the correspondence runs it is membership in the table of signatures the harness created with glow.Sign",
        "the model starts from the decoded JSON request (encoding/json is not modelled); the harness posts the same value it gives to the model and uses valid UTF-8 locations only",
        "the GCA key of a server does not change after registration (C07); the server-side theorems take it as a parameter",
        "client theorems are about one sync round at a time (a round captures the GCA key when it starts and applies the reply before the next one starts); file writes succeed",
        "c17_persist_equals_adopt needs a non-empty adopted list: finding K7 (an order with no new server bricks the client) is recorded in known_findings.txt and proved as c17_persist_equals_adopt_without_servers_refuted",
    ],
}
TEXT = {
    "text": "Server side (ServerList.v): post_server = AuthorizedServersHandlerPOST after JSON decoding, validate_migration/post_migration; theorems for EVERY sequence of posts from every list and an arbitrary verify: c17_enter_signed, c17_entries_stable (a position keeps its entry or takes a posted, signed, banned record for the same key), c17_ban_monotone (banned entries never change), c17_list_only_grows, c17_migrations_validated. Client side (ClientSync.v): sync_round with apply_sync (merge rule !exists||Banned, or the three file writes then adoption) and client_load; theorems for every history of sync rounds (arbitrary per-attempt outcomes) and restarts from any loaded client: c17_identity_changes_only_by_order (a step keeps GCA and id, keeps or bans entries and admits only GCA-signed new entries -- or the accepted reply carried an order for THIS device key signed by the CURRENT GCA and every new server is signed by the NEW GCA), c17_client_ban_monotone, c17_persist_equals_adopt (restart loads what was adopted, for non-empty lists), plus two refutations kept as findings (empty order K7; banned entry's address rewritten by a later ban record). Tie: suite serverlist (HTTP POST sequences against a real server, GET after each, sync reply after each migration) and suite migrate (scripted servers feeding a real client, restarts through the hook loader and the real NewClient, state accessor + files). Added after seeded-change rounds: forged entries / orders for already known keys, 500 rounds of eight simultaneous announcements of one key, oracle clause that a GCA-signed ban in an accepted list is adopted. Round 5: migration orders that re-authorize servers the client already knows and that carry a ban followed by the older entry of the same key; a ban listed in an adopted order must be in the new list; the known finding K7 is tied to orders whose own list is empty.",
    "note": "Trusted: Coq kernel + vm_compute, the harness, secp256k1, encoding/json. KNOWN-FINDING lines are expected for the two recorded findings.",
    "technique": "Coq proof (induction over arbitrary post sequences / client histories, arbitrary verify) + differential correspondence (vm_compute)",
}
