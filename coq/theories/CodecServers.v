(* Variable-length structures: server.AuthorizedServer (Serialize, SigningBytes),
   server.EquipmentMigration (Serialize, SigningBytes) and the client's server map
   (client.SerializeGCAServerMap / UntrustedDeserializeGCAServerMap).  Definitions only.
   Locations are byte strings (Go strings are arbitrary bytes). *)
From Coq Require Import ZArith List Bool String.
From GCA Require Import Bytes Codec.
Import ListNotations.
Open Scope Z_scope.
Notation length := List.length.

Definition bool_byte (x : bool) : Byte.byte := if x then Byte.x01 else Byte.x00.

(* ---- AuthorizedServer --------------------------------------------------------- *)
Record aserver := { as_key : bytes; as_banned : bool; as_loc : bytes;
                    as_http : Z; as_tcp : Z; as_udp : Z; as_sig : bytes }.

(* key(32) banned(1) len(1) location(len) http(2) tcp(2) udp(2): the length byte is
   byte(len(Location)), i.e. the length modulo 256 *)
Definition aserver_body (s : aserver) : bytes :=
  pad 32 (as_key s) ++ [bool_byte (as_banned s)] ++ [z2b (Z.of_nat (length (as_loc s)))] ++
  as_loc s ++ le_enc 2 (as_http s) ++ le_enc 2 (as_tcp s) ++ le_enc 2 (as_udp s).
Definition aserver_serialize (s : aserver) : bytes := aserver_body s ++ pad 64 (as_sig s).
Definition aserver_signing_bytes (s : aserver) : bytes := ascii_bytes prefix_aserver ++ aserver_body s.

Definition aserver_wf (s : aserver) : Prop :=
  length (as_key s) = 32%nat /\ (length (as_loc s) <= 255)%nat /\
  0 <= as_http s < 2^16 /\ 0 <= as_tcp s < 2^16 /\ 0 <= as_udp s < 2^16 /\
  length (as_sig s) = 64%nat.

(* Reference decoder of one record at the head of [b] (the repository has no decoder
   of its own for this structure on the server side; the client's sync parser reads
   the same layout).  Strict: the banned byte must be 0 or 1. *)
Definition aserver_decode_prefix (b : bytes) : dres aserver :=
  if (length b <? 34)%nat then DErr else
  let l := Z.to_nat (le_dec (slice 33 1 b)) in
  if (length b <? 104 + l)%nat then DErr else
  match slice 32 1 b with
  | [fl] =>
      if Byte.eqb fl Byte.x00 || Byte.eqb fl Byte.x01 then
        DOk {| as_key := slice 0 32 b; as_banned := Byte.eqb fl Byte.x01;
               as_loc := slice 34 l b;
               as_http := le_dec (slice (34 + l) 2 b); as_tcp := le_dec (slice (36 + l) 2 b);
               as_udp := le_dec (slice (38 + l) 2 b); as_sig := slice (40 + l) 64 b |}
            (104 + l)
      else DErr
  | _ => DErr
  end.
(* a whole buffer holding exactly one record *)
Definition aserver_decode (b : bytes) : option aserver :=
  match aserver_decode_prefix b with
  | DOk s n => if Nat.eqb n (length b) then Some s else None
  | _ => None
  end.

(* ---- EquipmentMigration ------------------------------------------------------- *)
Record migration := { m_equip : bytes; m_newgca : bytes; m_newid : Z;
                      m_servers : list aserver; m_sig : bytes }.

Fixpoint aservers_encode (l : list aserver) : bytes :=
  match l with [] => [] | s :: l' => aserver_serialize s ++ aservers_encode l' end.
Definition migration_body (m : migration) : bytes :=
  pad 32 (m_equip m) ++ pad 32 (m_newgca m) ++ le_enc 4 (m_newid m) ++ aservers_encode (m_servers m).
Definition migration_serialize (m : migration) : bytes := migration_body m ++ pad 64 (m_sig m).
Definition migration_signing_bytes (m : migration) : bytes :=
  ascii_bytes prefix_migration ++ migration_body m.

Definition migration_wf (m : migration) : Prop :=
  length (m_equip m) = 32%nat /\ length (m_newgca m) = 32%nat /\ 0 <= m_newid m < 2^32 /\
  Forall aserver_wf (m_servers m) /\ length (m_sig m) = 64%nat.

(* reference decoder: the records after the 68-byte header, up to the last 64 bytes
   (a record is at least 104 bytes long, so "exactly 64 bytes left" is unambiguous) *)
Fixpoint aservers_decode (fuel : nat) (b : bytes) : dres (list aserver * bytes) :=
  match fuel with
  | O => DFuel
  | S fuel' =>
      if Nat.eqb (length b) 64 then DOk ([], b) 0 else
      match aserver_decode_prefix b with
      | DOk s n =>
          match aservers_decode fuel' (skipn n b) with
          | DOk (l, sg) m => DOk (s :: l, sg) (n + m)
          | DErr => DErr | DFatal => DFatal | DFuel => DFuel
          end
      | DErr => DErr | DFatal => DFatal | DFuel => DFuel
      end
  end.
Definition migration_decode (b : bytes) : dres migration :=
  if (length b <? 68 + 64)%nat then DErr else
  match aservers_decode (S (length b)) (skipn 68 b) with
  | DOk (l, sg) n =>
      DOk {| m_equip := slice 0 32 b; m_newgca := slice 32 32 b; m_newid := le_dec (slice 64 4 b);
             m_servers := l; m_sig := sg |} (length b)
  | DErr => DErr | DFatal => DFatal | DFuel => DFuel
  end.

(* ---- the client's server map (gcaServers.dat) --------------------------------- *)
Record cserver := { cs_banned : bool; cs_loc : bytes; cs_http : Z; cs_tcp : Z; cs_udp : Z }.
Definition centry : Type := bytes * cserver.       (* public key, server *)

(* key(32) banned(1) len(2, little-endian) location http(2) tcp(2) udp(2) *)
Definition centry_encode (e : centry) : bytes :=
  pad 32 (fst e) ++ [bool_byte (cs_banned (snd e))] ++ le_enc 2 (Z.of_nat (length (cs_loc (snd e)))) ++
  cs_loc (snd e) ++ le_enc 2 (cs_http (snd e)) ++ le_enc 2 (cs_tcp (snd e)) ++ le_enc 2 (cs_udp (snd e)).
(* SerializeGCAServerMap over the entries in the order the map iteration produced them;
   an over-long location makes the whole call fail *)
Fixpoint smap_encode (l : list centry) : option bytes :=
  match l with
  | [] => Some []
  | e :: l' =>
      if 65535 <? Z.of_nat (length (cs_loc (snd e))) then None else
      match smap_encode l' with Some r => Some (centry_encode e ++ r) | None => None end
  end.

Definition centry_wf (e : centry) : Prop :=
  length (fst e) = 32%nat /\ Z.of_nat (length (cs_loc (snd e))) <= 65535 /\
  0 <= cs_http (snd e) < 2^16 /\ 0 <= cs_tcp (snd e) < 2^16 /\ 0 <= cs_udp (snd e) < 2^16.

(* one entry at the head of a non-empty input, as UntrustedDeserializeGCAServerMap reads
   it (any non-zero banned byte means banned) *)
Definition centry_decode_prefix (b : bytes) : dres centry :=
  if (length b <? 32)%nat then DErr else
  match slice 32 1 b with
  | [fl] =>
      if (length b <? 35)%nat then DErr else
      let l := Z.to_nat (le_dec (slice 33 2 b)) in
      if (length b <? 35 + l)%nat then DErr else
      if (length b <? 35 + l + 6)%nat then DErr else
      DOk (slice 0 32 b,
           {| cs_banned := negb (Byte.eqb fl Byte.x00); cs_loc := slice 35 l b;
              cs_http := le_dec (slice (35 + l) 2 b); cs_tcp := le_dec (slice (37 + l) 2 b);
              cs_udp := le_dec (slice (39 + l) 2 b) |}) (41 + l)
  | _ => DErr
  end.
(* the entries in file order *)
Fixpoint smap_decode_list (fuel : nat) (b : bytes) : dres (list centry) :=
  match fuel with
  | O => DFuel
  | S fuel' =>
      match b with
      | [] => DOk [] 0
      | _ :: _ =>
          match centry_decode_prefix b with
          | DOk e n =>
              match smap_decode_list fuel' (skipn n b) with
              | DOk l m => DOk (e :: l) (n + m)
              | DErr => DErr | DFatal => DFatal | DFuel => DFuel
              end
          | DErr => DErr | DFatal => DFatal | DFuel => DFuel
          end
      end
  end.
Definition smap_decode (b : bytes) : dres (list centry) := smap_decode_list (S (length b)) b.

(* the Go map built from the entries: gcaMap[key] = ... in file order, later wins *)
Fixpoint smap_lookup (k : bytes) (l : list centry) : option cserver :=
  match l with
  | [] => None
  | (k', v) :: l' =>
      match smap_lookup k l' with
      | Some v' => Some v'
      | None => if bytes_eqb k k' then Some v else None
      end
  end.
