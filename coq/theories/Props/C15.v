(* C15 -- wire and disk encodings are exact, stable and unambiguous (work in progress) *)
From Coq Require Import ZArith List String Bool.
From GCA Require Import Bytes Codec CodecStats CodecServers.
