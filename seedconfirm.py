#!/usr/bin/env python3
"""seedconfirm.py <prop> <seed out dir> <i> <check ids...>: confirm a seeded change (applies, builds, baseline passes,
demo fails with / passes without), run our checks on it in sandbox mode, and store it under /verif/seeded/<prop>-<i>/."""
import sys, os, re, subprocess, json, shutil, hashlib, time
prop, out, i = sys.argv[1], sys.argv[2], sys.argv[3]
checks = sys.argv[4:]
env = dict(os.environ, GOFLAGS="-mod=mod", GOPROXY="off", GOSUMDB="off", GOTOOLCHAIN="local")
patch = os.path.join(out, "patch%s.diff" % i)
demo = os.path.join(out, "demo%s_test.go" % i)
notes = os.path.join(out, "notes%s.md" % i)
wt = "/tmp/seedconf-%s-%s" % (prop, i)
subprocess.run(["git", "-C", "/repo", "worktree", "remove", "--force", wt], capture_output=True)
subprocess.run(["git", "-C", "/repo", "worktree", "add", "-q", wt, "HEAD"], check=True)
res = {"property": prop, "index": int(i)}
def sh(cmd, **kw):
    p = subprocess.run(cmd, cwd=wt, env=dict(env, TMPDIR=wt + "/tmp"), capture_output=True, text=True, **kw)
    return p.returncode, (p.stdout + p.stderr)[-1500:]
os.makedirs(wt + "/tmp", exist_ok=True)
progdir = os.path.join(out, "demo%s" % i)
if not os.path.exists(demo) and os.path.exists(os.path.join(progdir, "main.go")):
    # the demonstration is a program: exit code 0 = property holds
    demo = os.path.join(progdir, "main.go")
    pkg, tests, tags = "zz_demo%s" % i, ["main"], ""
    def rundemo():
        shutil.copytree(progdir, os.path.join(wt, pkg))
        rc, o = sh(["go", "run", "-tags", "verif", "./" + pkg], timeout=600)
        shutil.rmtree(os.path.join(wt, pkg))
        return rc, o
else:
    src = open(demo).read()
    pkg = re.search(r"^package (\w+)", src, re.M).group(1).replace("_test", "")
    tests = re.findall(r"^func (Test\w+)\(", src, re.M)
    tags = "test verif"
    if re.search(r"^//go:build !test", src, re.M):
        tags = "verif"          # a demonstration for the production build
    tags = os.environ.get("DEMO_TAGS", tags)
    dst = os.path.join(wt, pkg, "zz_demo%s_test.go" % i)
    def rundemo():
        shutil.copy(demo, dst)
        rc, o = sh(["go", "test", "-vet=off"] + (["-race"] if os.environ.get("DEMO_RACE") else []) + ["-tags", tags, "-count=1", "-run", "^(" + "|".join(tests) + ")$", "./" + pkg + "/"], timeout=600)
        os.remove(dst)
        return rc, o
rc0, o0 = rundemo()
res["demo_passes_unchanged"] = (rc0 == 0)
rc, o = sh(["git", "apply", patch]); res["applies"] = (rc == 0)
rc, o = sh(["sh", "-c", "go build ./... && go build -tags test ./... && go build -tags 'test verif' ./..."]); res["builds"] = (rc == 0)
for _try in range(3):   # TestRateLimiterParallel is timing-sensitive on a loaded machine
    rc, o = sh(["go", "test", "-vet=off", "-count=1", "./glow/"], timeout=600)
    if rc == 0: break
res["baseline_glow_passes"] = (rc == 0)
rc, o = sh(["go", "test", "-tags", "test", "-count=1", "./server/"], timeout=900); res["server_suite_passes"] = (rc == 0)
if pkg == "client" or "client/" in open(patch).read():
    rc, o = sh(["go", "test", "-tags", "test", "-count=1", "./client/"], timeout=900); res["client_suite_passes"] = (rc == 0)
rc1, o1 = rundemo()
res["demo_fails_with_change"] = (rc1 != 0)
res["demo_failure_tail"] = o1[-600:]
shutil.rmtree(wt + "/tmp", ignore_errors=True)
# our checks, sandbox mode
res["checks"] = {}
for c in checks:
    p = subprocess.run(["/verif/check", c], cwd="/verif", env=dict(os.environ, VERIF_REPO=wt), capture_output=True, text=True)
    lines = [l for l in (p.stdout + p.stderr).splitlines() if re.match(r"VIOLATION|OK |FAIL |  violation:|ERROR", l)]
    res["checks"][c] = {"exit": p.returncode, "lines": [l[:300] for l in lines[:6]],
                        "caught": p.returncode == 1, "with_failing_input": any(l.startswith("VIOLATION") and "no-failing-input-found" not in l for l in lines)}
h = hashlib.sha1(wt.encode()).hexdigest()[:10]
shutil.rmtree("/tmp/verif-sandbox/" + h, ignore_errors=True)
subprocess.run(["git", "-C", "/repo", "worktree", "remove", "--force", wt], capture_output=True)
sd = "/verif/seeded/%s-%s" % (prop, os.environ.get("SEED_STORE_AS", i))
os.makedirs(sd, exist_ok=True)
shutil.copy(patch, sd + "/patch.diff"); shutil.copy(demo, sd + "/demo_test.go")
if os.path.exists(notes): shutil.copy(notes, sd + "/notes.md")
meta = {"property": prop, "breaks": prop, "source": "independent sub-agent given only the property text and a scratch worktree",
        "needs_to_manifest": (re.sub(r"\s+", " ", open(notes).read())[:900] if os.path.exists(notes) else ""),
        "confirmed": {k: res[k] for k in res if k not in ("checks",)},
        "demo": {"package": pkg, "tests": tests, "run": "copy demo_test.go into %s/ and run: go test -tags '%s' -count=1 -run '%s' ./%s/" % (pkg, tags, "|".join(tests), pkg)},
        "our_checks": res["checks"], "base_commit": subprocess.run(["git", "-C", "/repo", "rev-parse", "--short", "HEAD"], capture_output=True, text=True).stdout.strip(),
        "date": time.strftime("%Y-%m-%d %H:%M")}
json.dump(meta, open(sd + "/meta.json", "w"), indent=1)
ok = res["applies"] and res["builds"] and res["baseline_glow_passes"] and res["demo_passes_unchanged"] and res["demo_fails_with_change"]
print(prop, i, "CONFIRMED" if ok else "NOT-CONFIRMED", {k: v for k, v in res.items() if k not in ("checks", "demo_failure_tail")},
      {c: ("caught" + ("" if v["with_failing_input"] else " (no-failing-input-found)")) if v["caught"] else "MISSED" for c, v in res["checks"].items()})
