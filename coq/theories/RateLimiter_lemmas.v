(* Proofs about the RateLimiter model (glow/rate_limiter.go). *)
From Coq Require Import ZArith List Bool Sorted Lia.
From GCA Require Import RateLimiter.
Import ListNotations.
Open Scope Z_scope.

(* ---- lists ---------------------------------------------------------------- *)
Lemma filter_true_id {A} (f : A -> bool) l : (forall x, In x l -> f x = true) -> filter f l = l.
Proof.
  induction l as [|a l IH]; intros H; cbn [filter]; auto.
  rewrite (H a (or_introl eq_refl)). f_equal. apply IH. intros; apply H; now right.
Qed.

Lemma filter_false_nil {A} (f : A -> bool) l : (forall x, In x l -> f x = false) -> filter f l = [].
Proof.
  induction l as [|a l IH]; intros H; cbn [filter]; auto.
  rewrite (H a (or_introl eq_refl)). apply IH. intros; apply H; now right.
Qed.

Lemma filter_length_le {A} (p q : A -> bool) l : (forall x, In x l -> p x = true -> q x = true) ->
  (length (filter p l) <= length (filter q l))%nat.
Proof.
  induction l as [|a l IH]; intros H; cbn [filter]; auto.
  assert (IH' := IH (fun x Hx => H x (or_intror Hx))).
  destruct (p a) eqn:Pa.
  - rewrite (H a (or_introl eq_refl) Pa). cbn [length]. lia.
  - destruct (q a); cbn [length]; lia.
Qed.

Lemma filter_filter_impl {A} (p q : A -> bool) l : (forall x, p x = true -> q x = true) ->
  filter p (filter q l) = filter p l.
Proof.
  intros H. induction l as [|a l IH]; cbn [filter]; auto.
  destruct (q a) eqn:Qa; cbn [filter].
  - rewrite IH. reflexivity.
  - destruct (p a) eqn:Pa; auto. rewrite (H a Pa) in Qa. discriminate.
Qed.

Lemma sorted_snoc l x : StronglySorted Z.le l -> Forall (fun u => u <= x) l -> StronglySorted Z.le (l ++ [x]).
Proof.
  induction 1 as [|a r SS IH F]; intros B; cbn [app]; [repeat constructor|].
  inversion B as [|? ? Ba Br]; subst. constructor; auto. apply Forall_app. split; auto.
Qed.

Lemma sorted_app_r (a b : list Z) : StronglySorted Z.le (a ++ b) -> StronglySorted Z.le b.
Proof. induction a as [|x a IH]; cbn [app]; auto. intros H. inversion H; auto. Qed.

Lemma sorted_app_le (a b : list Z) u v : StronglySorted Z.le (a ++ b) -> In u a -> In v b -> u <= v.
Proof.
  induction a as [|x a IH]; cbn [app]; intros S Hu Hv; [easy|].
  inversion S as [|? ? S' F]; subst. destruct Hu as [->|Hu]; auto.
  rewrite Forall_forall in F. apply F. apply in_or_app. now right.
Qed.

Lemma sorted_filter (f : Z -> bool) l : StronglySorted Z.le l -> StronglySorted Z.le (filter f l).
Proof.
  induction 1 as [|a r SS IH F]; cbn [filter]; [constructor|].
  destruct (f a); auto. constructor; auto. rewrite Forall_forall in *. intros x Hx.
  apply filter_In in Hx as [Hx _]. auto.
Qed.

(* ---- the expiry loop is the filter, on ascending lists -------------------- *)
Lemma drop_expired_filter exp l : StronglySorted Z.le l ->
  drop_expired exp l = filter (fun a => exp <? a) l.
Proof.
  induction 1 as [|t r SS IH F]; cbn [drop_expired filter]; [reflexivity|].
  destruct (Z.ltb_spec exp t) as [L|L]; [|exact IH].
  f_equal. symmetry. apply filter_true_id. intros u Hu. rewrite Forall_forall in F.
  specialize (F u Hu). apply Z.ltb_lt. lia.
Qed.

(* ---- invariant ------------------------------------------------------------ *)
(* t = instant of the latest call *)
Record RInv (c : rl_cfg) (t : Z) (s : rl_state) : Prop := {
  ri_sorted : StronglySorted Z.le (snd s);
  ri_le : Forall (fun a => a <= t) (snd s);
  ri_reqs_sorted : StronglySorted Z.le (fst s);
  (* what the list will give at any later call *)
  ri_future : forall now, t <= now -> drop_expired (now - r_rate c) (fst s) = filter (recent c now) (snd s);
  (* for a positive rate the list is exactly the granted instants within (t - rate, t] *)
  ri_exact : 0 < r_rate c -> fst s = filter (recent c t) (snd s);
  (* every half-open window of length rate holds at most limit granted instants *)
  ri_window : forall w, rl_len (filter (in_window c w) (snd s)) <= Z.max 0 (r_limit c)
}.

Lemma rinv_init c t : RInv c t ([], []).
Proof. constructor; cbn; intros; try constructor; auto; lia. Qed.

Lemma allow_spec c t s now : RInv c t s -> t <= now ->
  allow c (fst s) now =
    let kept := filter (recent c now) (snd s) in
    if rl_len kept <? r_limit c then (kept ++ [now], true) else (kept, false).
Proof. intros I L. unfold allow. rewrite (ri_future _ _ _ I now L). reflexivity. Qed.

Lemma rl_step_inv c t s now : RInv c t s -> t <= now -> RInv c now (rl_step c s now).
Proof.
  intros I L. pose proof (allow_spec c t s now I L) as A. cbv zeta in A.
  destruct I as [S B RS FU EX W]. destruct s as [reqs adm]; cbn [fst snd] in *.
  unfold rl_step; cbn [fst snd]. rewrite A. clear A.
  set (kept := filter (recent c now) adm).
  assert (Bnow : Forall (fun a => a <= now) adm) by (eapply Forall_impl; [|exact B]; intros; cbv beta in *; lia).
  assert (Skept : StronglySorted Z.le kept) by now apply sorted_filter.
  assert (Bkept : Forall (fun a => a <= now) kept).
  { apply Forall_forall. intros x Hx. apply filter_In in Hx as [Hx _]. rewrite Forall_forall in Bnow; auto. }
  destruct (Z.ltb_spec (rl_len kept) (r_limit c)) as [Adm|Rej]; constructor; cbn [fst snd].
  - now apply sorted_snoc.
  - apply Forall_app. split; auto. repeat constructor. lia.
  - now apply sorted_snoc.
  - intros now' L'. rewrite drop_expired_filter by now apply sorted_snoc.
    rewrite !filter_app. f_equal. unfold kept. apply filter_filter_impl.
    unfold recent. intros x Hx. apply Z.ltb_lt in Hx. apply Z.ltb_lt. lia.
  - intros Hr. rewrite filter_app. f_equal. cbn [filter]. unfold recent.
    destruct (Z.ltb_spec (now - r_rate c) now); [reflexivity|lia].
  - intros w. rewrite filter_app. cbn [filter]. destruct (in_window c w now) eqn:Win.
    + unfold rl_len in *. rewrite app_length. cbn [length].
      assert (Hle : (length (filter (in_window c w) adm) <= length kept)%nat).
      { apply filter_length_le. intros x Hx Px. unfold in_window, recent in *.
        apply andb_true_iff in Px as [P1 P2], Win as [W1 W2].
        apply Z.leb_le in P1, W1. apply Z.ltb_lt in P2, W2. apply Z.ltb_lt. lia. }
      lia.
    + rewrite app_nil_r. apply W.
  - exact S.
  - exact Bnow.
  - exact Skept.
  - intros now' L'. rewrite drop_expired_filter by exact Skept. unfold kept. apply filter_filter_impl.
    unfold recent. intros x Hx. apply Z.ltb_lt in Hx. apply Z.ltb_lt. lia.
  - reflexivity.
  - exact W.
Qed.

Lemma last_cons_default {A} (x : A) r d : last (x :: r) d = last r x.
Proof. revert x; induction r as [|y r IH]; intros x; [reflexivity|]. cbn [last] in *. destruct r; auto. Qed.

Lemma nondecr_from_last t nows now : nondecr_from t (nows ++ [now]) -> last nows t <= now.
Proof.
  revert t; induction nows as [|x r IH]; intros t; cbn [app nondecr_from].
  - intros [H _]. exact H.
  - intros [_ H]. rewrite last_cons_default. now apply IH.
Qed.

Lemma rl_run_from c nows : forall t s, RInv c t s -> nondecr_from t nows ->
  RInv c (last nows t) (fold_left (rl_step c) nows s).
Proof.
  induction nows as [|x r IH]; intros t s I ND; cbn [fold_left]; [exact I|].
  destruct ND as [L ND]. rewrite last_cons_default. apply IH; auto. eapply rl_step_inv; eauto.
Qed.

Lemma rl_run_inv c nows t0 : nondecr nows -> RInv c (last nows t0) (rl_run c nows).
Proof.
  unfold rl_run. destruct nows as [|x r]; intros ND; [apply rinv_init|].
  rewrite last_cons_default. cbn [fold_left]. apply rl_run_from; auto.
  eapply rl_step_inv; [apply (rinv_init c x)|lia].
Qed.

(* ---- statements of C19 ---------------------------------------------------- *)
Lemma invariant c nows t0 : nondecr nows ->
  let s := rl_run c nows in
  let t := last nows t0 in
  StronglySorted Z.le (fst s) /\ StronglySorted Z.le (snd s) /\ Forall (fun a => a <= t) (snd s) /\
  (0 < r_rate c -> fst s = filter (recent c t) (snd s)) /\
  (forall now, t <= now -> drop_expired (now - r_rate c) (fst s) = filter (recent c now) (snd s)).
Proof. intros ND. destruct (rl_run_inv c nows t0 ND). repeat split; auto. Qed.

Lemma safety c nows w : nondecr nows ->
  rl_len (filter (in_window c w) (snd (rl_run c nows))) <= Z.max 0 (r_limit c).
Proof. intros ND. apply (ri_window _ _ _ (rl_run_inv c nows 0 ND)). Qed.

Lemma decision_exact c nows now : nondecr (nows ++ [now]) ->
  snd (allow c (fst (rl_run c nows)) now) =
    (rl_len (filter (recent c now) (snd (rl_run c nows))) <? r_limit c).
Proof.
  intros ND. assert (ND' : nondecr nows).
  { destruct nows as [|x r]; cbn in *; auto. revert x ND. induction r as [|y r IH]; cbn; auto.
    intros x [L H]. split; auto. }
  assert (L : last nows now <= now).
  { destruct nows as [|x r]; [cbn [last]; lia|]. rewrite last_cons_default.
    cbn [app nondecr] in ND. now apply nondecr_from_last. }
  rewrite (allow_spec c _ _ now (rl_run_inv c nows now ND') L). cbv zeta.
  destruct (rl_len _ <? r_limit c); reflexivity.
Qed.

Lemma liveness c nows now : nondecr (nows ++ [now]) ->
  rl_len (filter (recent c now) (snd (rl_run c nows))) < r_limit c ->
  snd (allow c (fst (rl_run c nows)) now) = true.
Proof. intros ND H. rewrite decision_exact by auto. now apply Z.ltb_lt. Qed.

Lemma sorted_app_l (a b : list Z) : StronglySorted Z.le (a ++ b) -> StronglySorted Z.le a.
Proof.
  induction a as [|x a IH]; cbn [app]; [constructor|]. intros H. inversion H as [|? ? S F]; subst.
  constructor; auto. apply Forall_app in F. tauto.
Qed.

Lemma safety_span c nows pre x mid y post : nondecr nows ->
  snd (rl_run c nows) = pre ++ (x :: mid ++ [y]) ++ post ->
  rl_len mid = r_limit c - 1 ->
  r_rate c <= y - x.
Proof.
  intros ND E Hm. destruct (Z.le_gt_cases (r_rate c) (y - x)) as [|Hlt]; auto. exfalso.
  pose proof (safety c nows x ND) as W. pose proof (ri_sorted _ _ _ (rl_run_inv c nows 0 ND)) as S.
  rewrite E in W, S. apply sorted_app_r, sorted_app_l in S.
  rewrite !filter_app in W. unfold rl_len in *. rewrite !app_length in W.
  assert (All : filter (in_window c x) (x :: mid ++ [y]) = x :: mid ++ [y]).
  { apply filter_true_id. intros e He. inversion S as [|? ? S' F]; subst.
    assert (x <= e) by (destruct He as [->|He]; [lia|rewrite Forall_forall in F; auto]).
    assert (e <= y).
    { destruct He as [->|He].
      - rewrite Forall_forall in F. apply F. apply in_or_app. right. now left.
      - apply in_app_or in He as [He|[->|[]]]; [|lia]. eapply (sorted_app_le mid [y]); eauto. now left. }
    unfold in_window. apply andb_true_iff. split; [apply Z.leb_le|apply Z.ltb_lt]; lia. }
  rewrite All in W. cbn [length] in W. rewrite app_length in W. cbn [length] in W. lia.
Qed.

Lemma limit_nonpositive c reqs now : r_limit c <= 0 -> snd (allow c reqs now) = false.
Proof.
  intros H. unfold allow. destruct (Z.ltb_spec (rl_len (drop_expired (now - r_rate c) reqs)) (r_limit c)) as [L|L]; auto.
  unfold rl_len in L. lia.
Qed.

Lemma rate_nonpositive c nows now : r_rate c <= 0 -> nondecr (nows ++ [now]) ->
  snd (allow c (fst (rl_run c nows)) now) = (0 <? r_limit c).
Proof.
  intros Hr ND. rewrite decision_exact by auto.
  assert (ND' : nondecr nows).
  { destruct nows as [|x r]; cbn in *; auto. revert x ND. induction r as [|y r IH]; cbn; auto.
    intros x [L H]. split; auto. }
  assert (L : last nows now <= now).
  { destruct nows as [|x r]; [cbn [last]; lia|]. rewrite last_cons_default.
    cbn [app nondecr] in ND. now apply nondecr_from_last. }
  pose proof (ri_le _ _ _ (rl_run_inv c nows now ND')) as B.
  rewrite filter_false_nil; [reflexivity|].
  intros a Ha. rewrite Forall_forall in B. specialize (B a Ha). unfold recent. apply Z.ltb_ge. lia.
Qed.
