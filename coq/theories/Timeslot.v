(* Model of glow/timeslot_u.go, glow/timeslot.go (production CurrentTimeslot),
   the acceptance comparison of server/report_listener_udp.go
   managedHandleEquipmentReport, and the rotation thread's schedule
   (server/equipment.go launchMigrateReports).  Definitions only; proofs are in
   Timeslot_lemmas.v. *)
From Coq Require Import ZArith List Bool.
From GCA Require Import Wrap.
Import ListNotations.
Open Scope Z_scope.

Section Timeslot.
  Variable G : Z.                       (* glow.GenesisTime *)

  (* func UnixToTimeslot(time int64) (uint32, error):
       if time < GenesisTime { error }; return uint32(time-GenesisTime) / 300 *)
  Definition unix_to_timeslot (t : Z) : option Z :=
    if t <? G then None else Some (u32 (i64 (t - G)) / 300).

  (* func TimeslotToUnix(timeslot uint32) int64:
       return GenesisTime + int64(timeslot*300)   -- the product is uint32 *)
  Definition timeslot_to_unix (s : Z) : Z := i64 (G + u32 (s * 300)).

  (* production CurrentTimeslot: panics when the clock is before genesis *)
  Definition current_timeslot (now_unix : Z) : option Z :=
    if now_unix <? G then None else Some (u32 (i64 (now_unix - G) / 300)).
End Timeslot.

(* int64(report.Timeslot) < int64(now)-432 || int64(report.Timeslot) > int64(now)+432
   -> rejected.  [half] is the literal 432. *)
Definition accept_go (half ts now : Z) : bool :=
  negb ((i64 ts <? i64 (i64 now - half)) || (i64 (i64 now + half) <? i64 ts)).

Definition accept_math (half ts now : Z) : bool :=
  (Z.abs (ts - now) <=? half).

(* Gregorian calendar -> unix seconds (days-from-civil, proleptic, UTC) *)
Definition days_from_civil (y m d : Z) : Z :=
  let y' := if m <=? 2 then y - 1 else y in
  let era := (if 0 <=? y' then y' else y' - 399) / 400 in
  let yoe := y' - era * 400 in
  let mp := (m + 9) mod 12 in
  let doy := (153 * mp + 2) / 5 + d - 1 in
  let doe := yoe * 365 + yoe / 4 - yoe / 100 + doy in
  era * 146097 + doe - 719468.
Definition unix_of_utc (y m d hh mm ss : Z) : Z :=
  days_from_civil y m d * 86400 + hh * 3600 + mm * 60 + ss.
(* day of week, 0 = Sunday; 1970-01-01 was a Thursday *)
Definition weekday_of_unix (t : Z) : Z := (t / 86400 + 4) mod 7.

(* ------------------------------------------------------------------------- *)
(* Rotation schedule.  Time is counted in timeslots.  The rotation thread
   alternates between sleeping (at most P slots, then it checks) and
   migrating (at most D slots: it first fetches data over the network, then
   rotates under the lock).  T = trigger, Wk = slots moved per rotation. *)
Record sched_cfg := { cT : Z; cP : Z; cD : Z; cH : Z; cW : Z; cWk : Z }.

Inductive phase := Idle (deadline : Z) | Migrating (deadline : Z).
Record sched := { s_now : Z; s_off : Z; s_ph : phase }.

Inductive sched_ev := Tick | Check | Rotate.

Definition sched_step (c : sched_cfg) (s : sched) (e : sched_ev) : option sched :=
  match e, s_ph s with
  | Tick, Idle dl | Tick, Migrating dl =>
      (* the clock may advance only while the thread's deadline is not yet due *)
      if s_now s <? dl then Some {| s_now := s_now s + 1; s_off := s_off s; s_ph := s_ph s |}
      else None
  | Check, Idle _ =>
      if cT c <? s_now s - s_off s
      then Some {| s_now := s_now s; s_off := s_off s; s_ph := Migrating (s_now s + cD c) |}
      else Some {| s_now := s_now s; s_off := s_off s; s_ph := Idle (s_now s + cP c) |}
  | Rotate, Migrating _ =>
      Some {| s_now := s_now s; s_off := s_off s + cWk c; s_ph := Idle (s_now s + cP c) |}
  | _, _ => None
  end.

Fixpoint sched_run (c : sched_cfg) (s : sched) (es : list sched_ev) : option sched :=
  match es with
  | [] => Some s
  | e :: es' => match sched_step c s e with Some s' => sched_run c s' es' | None => None end
  end.

(* a report timeslot the server would accept at this instant *)
Definition acceptable (c : sched_cfg) (s : sched) (ts : Z) : Prop :=
  Z.abs (ts - s_now s) <= cH c.

Definition cfg_ok (c : sched_cfg) : bool :=
  (0 <=? cP c) && (0 <=? cD c) && (0 <=? cH c) &&
  (cT c + cP c + cD c + cH c <? cW c) &&
  (cD c + cP c <=? cWk c) && (cWk c + cH c <=? cT c).
