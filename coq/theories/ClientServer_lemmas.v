(* C08: after one fault-free sync round the server holds a record for every slot of its window,
   still acceptable, for which the device has a reading. *)
From Coq Require Import ZArith List Bool Lia.
From GCA Require Import Wrap Bytes Bytes_lemmas Codec Codec_lemmas Amap Amap_lemmas Timeslot Timeslot_lemmas Server ServerInv
                        ServerInv_lemmas ServerInv2_lemmas ServerC01_lemmas ServerC02_lemmas ClientHistory ClientReports ClientServer.
Import ListNotations.
Open Scope Z_scope.
Set Default Proof Using "Type".
Notation length := List.length.

Lemma In_zrange i start n : In i (zrange start n) <-> start <= i < start + Z.of_nat n.
Proof.
  revert start. induction n as [|n IH]; intros start; cbn [zrange]; [simpl; lia|].
  rewrite Nat2Z.inj_succ. simpl. rewrite IH. lia.
Qed.

Lemma slot_step_nonzero cap cur r : r_p r <> 0 -> r_p (slot_step cap cur r) <> 0.
Proof.
  intros NZ. unfold slot_step.
  destruct (Z.eqb_spec (r_p cur) 1) as [E|E]; [lia|].
  destruct (report_eqb cur r) eqn:Q; [apply report_eqb_eq in Q; subst; exact NZ|].
  destruct (overcap cap (r_p r)); [cbn; lia|].
  destruct (Z.eqb_spec (r_p cur) 0); [exact NZ | cbn; lia].
Qed.

Definition nonblank (st : state) (id i : Z) : Prop :=
  exists w r, zget id (reports (mm st)) = Some w /\ zget i w = Some r.

Section Compose.
  Variable verify : bytes -> bytes -> bytes -> bool.
  Variable csign : bytes -> bytes.

  Lemma integrate_keeps st r id i : MemInv (mm st) -> 0 <= r_ts r ->
    nonblank st id i -> nonblank (fst (integrate st r)) id i /\
    equipment (mm (fst (integrate st r))) = equipment (mm st) /\ offset (mm (fst (integrate st r))) = offset (mm st).
  Proof.
    intros I Hts (w & x & Qw & Qx).
    destruct (integrate_cases st r I Hts) as [[E1 _]|[(_ & E1 & _)|(w0 & w2 & Q0 & Rng & E & Oth & y & Gy & _)]].
    - rewrite E1. split; [|split; reflexivity]. exists w, x. split; assumption.
    - rewrite E1. split; [|split; reflexivity]. exists w, x. split; assumption.
    - rewrite E. cbn [fst mm with_reports reports equipment offset]. split; [|split; reflexivity].
      unfold nonblank. cbn [mm with_reports reports].
      destruct (Z.eq_dec id (r_id r)) as [->|N].
      + rewrite Q0 in Qw. inversion Qw; subst w0. exists w2.
        destruct (Z.eq_dec i (r_ts r - offset (mm st))) as [->|Ni].
        * exists y. split; [apply zget_zset_same | exact Gy].
        * exists x. split; [apply zget_zset_same | rewrite Oth by exact Ni; exact Qx].
      + exists w, x. split; [rewrite zget_zset_other by exact N; exact Qw | exact Qx].
  Qed.

  Lemma udp_keeps st now d id i : MemInv (mm st) ->
    (nonblank st id i -> nonblank (fst (udp_receive verify st now d)) id i) /\
    equipment (mm (fst (udp_receive verify st now d))) = equipment (mm st) /\
    offset (mm (fst (udp_receive verify st now d))) = offset (mm st) /\
    MemInv (mm (fst (udp_receive verify st now d))).
  Proof.
    clear csign. intros I. pose proof (proj1 (udp_inv verify st now d I)) as I'.
    unfold udp_receive in *. destruct (Nat.ltb (length d) 80); [split; [auto|]; split; [reflexivity|]; split; [reflexivity | exact I]|].
    unfold handle_report, parse_report in *.
    destruct (report_decode (firstn 80 d)) as [r|] eqn:D; [|split; [auto|]; split; [reflexivity|]; split; [reflexivity | exact I]].
    destruct (zget (r_id r) (equipment (mm st))) as [a|]; [|split; [auto|]; split; [reflexivity|]; split; [reflexivity | exact I]].
    destruct (verify (a_key a) (report_signing_bytes r) (r_sig r)); [|split; [auto|]; split; [reflexivity|]; split; [reflexivity | exact I]].
    destruct (negb _); [split; [auto|]; split; [reflexivity|]; split; [reflexivity | exact I]|].
    destruct (_ || _); [split; [auto|]; split; [reflexivity|]; split; [reflexivity | exact I]|].
    apply report_decode_some in D. destruct D as (_ & _ & Hts & _).
    split; [|split; [|split]]; try exact I'.
    - intros N. apply (integrate_keeps st r id i I ltac:(lia) N).
    - destruct (integrate_cases st r I ltac:(lia)) as [[E1 _]|[(_ & E1 & _)|(w0 & w2 & _ & _ & E & _)]]; rewrite ?E1, ?E; reflexivity.
    - destruct (integrate_cases st r I ltac:(lia)) as [[E1 _]|[(_ & E1 & _)|(w0 & w2 & _ & _ & E & _)]]; rewrite ?E1, ?E; reflexivity.
  Qed.

  Definition csign_len_ok : Prop := forall m, length (csign m) = 64%nat.

  (* a genuine, acceptable, in-window retransmission of a non-sentinel value leaves its slot occupied *)
  Lemma delivered_occupies st now id a t p : csign_len_ok ->
    MemInv (mm st) -> is_u32 now -> 0 <= id < 2^32 ->
    zget id (equipment (mm st)) = Some a ->
    (forall m, verify (a_key a) m (csign m) = true) ->
    offset (mm st) <= t < offset (mm st) + 4032 -> Z.abs (t - now) <= 432 ->
    0 <= p < 2^64 -> p <> 0 -> p <> 1 ->
    nonblank (fst (udp_receive verify st now (datagram csign id (t, p)))) id (t - offset (mm st)).
  Proof.
    intros csign_len I Hn Hid Qa Hsig Win Acc Hp P0 P1.
    pose proof (i_off_lo _ I) as Hlo. pose proof (i_off_hi _ I) as Hhi.
    set (r := {| r_id := id; r_ts := t; r_p := p;
                 r_sig := csign (report_signing_bytes {| r_id := id; r_ts := t; r_p := p; r_sig := [] |}) |}).
    assert (Wf : report_wf r) by (unfold report_wf, r; cbn; repeat split; try lia; apply csign_len).
    unfold datagram. cbn [fst snd]. fold r.
    unfold udp_receive. rewrite report_serialize_length. cbn [Nat.ltb Nat.leb].
    rewrite firstn_all2 by (rewrite report_serialize_length; apply le_n).
    unfold handle_report, parse_report. rewrite (report_roundtrip r Wf).
    change (r_id r) with id. rewrite Qa.
    replace (report_signing_bytes r) with (report_signing_bytes {| r_id := id; r_ts := t; r_p := p; r_sig := [] |}) by reflexivity.
    change (r_sig r) with (csign (report_signing_bytes {| r_id := id; r_ts := t; r_p := p; r_sig := [] |})).
    rewrite Hsig. change (r_ts r) with t. change (r_p r) with p.
    unfold accept_half. rewrite accept_exact by (unfold is_u32 in *; lia). unfold accept_math.
    destruct (Z.leb_spec (Z.abs (t - now)) 432) as [_|X]; [|lia]. cbn [negb].
    destruct (Z.eqb_spec p 0); [contradiction|]. destruct (Z.eqb_spec p 1); [contradiction|]. cbn [orb].
    assert (Qw : exists w, zget id (reports (mm st)) = Some w).
    { apply zmem_true_get. rewrite (i_dom_rep _ I). eapply zget_zmem; exact Qa. }
    destruct Qw as [w Qw].
    destruct (integrate_slot st r w a Hlo ltac:(lia) Qw Qa Win) as (_ & _ & _ & w' & Qw' & Gs & _).
    exists w'. change (r_ts r) with t in Gs.
    assert (NZ : r_p (getslot (t - offset (mm st)) w') <> 0).
    { rewrite Gs. apply slot_step_nonzero. exact P0. }
    exists (getslot (t - offset (mm st)) w'). split; [exact Qw' | apply getslot_nonblank; exact NZ].
  Qed.

  Lemma deliver_all_keeps ds : forall st now id i, MemInv (mm st) -> nonblank st id i ->
    nonblank (deliver_all verify st now ds) id i.
  Proof.
    induction ds as [|d ds IH]; intros st now id i I N; [exact N|]. cbn [deliver_all fold_left].
    destruct (udp_keeps st now d id i I) as (K & _ & _ & I'). apply IH; [exact I' | apply K; exact N].
  Qed.

  Lemma deliver_all_occupies es : csign_len_ok -> forall st now id a t p,
    MemInv (mm st) -> is_u32 now -> 0 <= id < 2^32 ->
    zget id (equipment (mm st)) = Some a -> (forall m, verify (a_key a) m (csign m) = true) ->
    offset (mm st) <= t < offset (mm st) + 4032 -> Z.abs (t - now) <= 432 ->
    0 <= p < 2^64 -> p <> 0 -> p <> 1 -> In (t, p) es ->
    nonblank (deliver_all verify st now (map (datagram csign id) es)) id (t - offset (mm st)).
  Proof.
    intros csign_len. induction es as [|e es IH]; intros st now id a t p I Hn Hid Qa Hsig Win Acc Hp P0 P1 Hin; [destruct Hin|].
    cbn [map deliver_all fold_left].
    destruct (udp_keeps st now (datagram csign id e) id (t - offset (mm st)) I) as (K & Eq & Eo & I').
    destruct Hin as [->|Hin].
    - apply deliver_all_keeps; [exact I'|]. apply (delivered_occupies st now id a t p csign_len); assumption.
    - rewrite <- Eo. apply (IH _ now id a t p); try assumption; rewrite ?Eq, ?Eo; assumption.
  Qed.

  (* ---- the theorem *)
  Theorem recovers st now id a origin h latest t x : csign_len_ok ->
    MemInv (mm st) -> is_u32 now -> 0 <= id < 2^32 -> is_u32 latest ->
    zget id (equipment (mm st)) = Some a -> (forall m, verify (a_key a) m (csign m) = true) ->
    offset (mm st) <= t < offset (mm st) + 4032 -> Z.abs (t - now) <= 432 -> t <= latest ->
    load_reading h origin t = Ok x -> 2 <= x < 2^32 ->
    nonblank (sync_round_delivered verify csign st now id origin h latest) id (t - offset (mm st)).
  Proof.
    intros csign_len I Hn Hid Hl Qa Hsig Win Acc Lat Ld Hx.
    pose proof (i_off_lo _ I) as Hlo. pose proof (i_off_hi _ I) as Hhi.
    assert (Qw : exists w, zget id (reports (mm st)) = Some w).
    { apply zmem_true_get. rewrite (i_dom_rep _ I). eapply zget_zmem; exact Qa. }
    destruct Qw as [w Qw].
    unfold sync_round_delivered, sync_view. rewrite Qw, Qa.
    set (bits := map fst (filter (fun p => 0 <? r_p (snd p)) w)).
    set (i := t - offset (mm st)).
    destruct (zget i w) as [r|] eqn:Qi.
    - (* the server already holds a record for the slot *)
      apply deliver_all_keeps; [exact I|]. exists w, r. split; assumption.
    - (* the bit is clear: the device retransmits the slot *)
      assert (Nb : zin i bits = false).
      { destruct (zin i bits) eqn:Z; [|reflexivity]. apply zin_In in Z. unfold bits in Z. apply in_map_iff in Z.
        destruct Z as ([k v] & Ek & Hk). cbn in Ek. subst k. apply filter_In in Hk. destruct Hk as [Hk _].
        exfalso. apply In_zmem in Hk. unfold zmem in Hk. rewrite Qi in Hk. discriminate. }
      assert (Ii : In i (resend_indices (offset (mm st)) latest bits)).
      { unfold resend_indices. apply filter_In. split; [apply In_zrange; unfold i; lia|].
        rewrite Nb. cbn [negb]. rewrite andb_true_r. apply Z.leb_le.
        unfold u32, is_u32 in *. destruct (Z_le_gt_dec (offset (mm st)) latest).
        - rewrite Z.mod_small by lia. unfold i. lia.
        - replace (latest - offset (mm st)) with (-1 * 2^32 + (2^32 + latest - offset (mm st))) by lia.
          rewrite Z.add_comm, Z.mod_add by lia. rewrite Z.mod_small by lia. unfold i. lia. }
      assert (Ie : In (t, u64 (i32 x)) (resend_emissions origin h (offset (mm st)) latest bits)).
      { unfold resend_emissions. apply in_flat_map. exists i. split; [exact Ii|].
        replace (u32 (i + offset (mm st))) with t by (unfold i; rewrite u32_id; [lia | unfold is_u32; lia]).
        unfold sync_resend. rewrite Ld. destruct (Z.ltb_spec x 2); [lia|]. left; reflexivity. }
      assert (Pr : 0 <= u64 (i32 x) < 2^64) by (apply u64_range).
      assert (Pnz : u64 (i32 x) <> 0 /\ u64 (i32 x) <> 1).
      { unfold u64, i32. destruct (Z_lt_ge_dec x (2^31)).
        - rewrite (Z.mod_small (x + 2^31)) by lia. rewrite Z.mod_small by lia. lia.
        - replace ((x + 2^31) mod 2^32) with (x - 2^31).
          + replace (x - 2^31 - 2^31) with (-1 * 2^64 + (2^64 + x - 2^32)) by lia.
            rewrite Z.add_comm, Z.mod_add by lia. rewrite Z.mod_small by lia. lia.
          + symmetry. replace (x + 2^31) with ((x - 2^31) + 1 * 2^32) by lia. rewrite Z.mod_add by lia. apply Z.mod_small. lia. }
      apply (deliver_all_occupies _ csign_len st now id a t (u64 (i32 x))); try assumption; try apply Pnz.
  Qed.
End Compose.
