(* C01: only authentic, authorized, in-window reports change server state. *)
From Coq Require Import ZArith List Bool Lia.
From GCA Require Import Wrap Bytes Bytes_lemmas Codec Amap Amap_lemmas Timeslot Timeslot_lemmas Server.
Import ListNotations.
Open Scope Z_scope.
Set Default Proof Using "Type".
Notation length := List.length.

Lemma report_decode_some b r : report_decode b = Some r ->
  length b = 80%nat /\ 0 <= r_id r < 2^32 /\ 0 <= r_ts r < 2^32 /\ 0 <= r_p r < 2^64 /\ length (r_sig r) = 64%nat.
Proof.
  unfold report_decode. destruct (Nat.eqb (length b) 80) eqn:E; [|discriminate].
  apply Nat.eqb_eq in E. intros H; inversion H; subst; clear H. cbn [r_id r_ts r_p r_sig].
  split; [exact E|].
  pose proof (le_dec_range (slice 0 4 b)) as H1. rewrite slice_length in H1 by lia.
  pose proof (le_dec_range (slice 4 4 b)) as H2. rewrite slice_length in H2 by lia.
  pose proof (le_dec_range (slice 8 8 b)) as H3. rewrite slice_length in H3 by lia.
  rewrite slice_length by lia.
  change (256 ^ Z.of_nat 4) with (2^32) in *. change (256 ^ Z.of_nat 8) with (2^64) in *.
  repeat split; lia.
Qed.

Section C01.
  Variable verify : bytes -> bytes -> bytes -> bool.

  (* the property's condition on a datagram, stated over Z *)
  Definition c01_valid (st : state) (now : Z) (d : bytes) : Prop :=
    exists r a,
      (80 <= length d)%nat /\
      report_decode (firstn 80 d) = Some r /\
      zget (r_id r) (equipment (mm st)) = Some a /\
      verify (a_key a) (report_signing_bytes r) (r_sig r) = true /\
      Z.abs (r_ts r - now) <= 432 /\
      offset (mm st) <= r_ts r < offset (mm st) + 4032 /\
      r_p r <> 0 /\ r_p r <> 1.

  Lemma integrate_frame st r :
    0 <= offset (mm st) -> offset (mm st) + 4032 < 2^32 ->
    fst (integrate st r) = st \/ offset (mm st) <= r_ts r < offset (mm st) + 4032.
  Proof.
    intros Ho1 Ho2. unfold integrate, window_len.
    destruct (Z.ltb_spec (r_ts r) (offset (mm st))) as [L|L]; [left; reflexivity|].
    rewrite (u32_id (offset (mm st) + 4032)) by (unfold is_u32; lia).
    destruct (Z.leb_spec (offset (mm st) + 4032) (r_ts r)) as [G|G]; [left; reflexivity|].
    right. lia.
  Qed.

  (* either the whole state is untouched, or the datagram meets every condition *)
  Theorem decide st now d :
    is_u32 now -> 0 <= offset (mm st) -> offset (mm st) + 4032 < 2^32 ->
    fst (udp_receive verify st now d) = st \/ c01_valid st now d.
  Proof.
    intros Hn Ho1 Ho2. unfold udp_receive.
    destruct (Nat.ltb_spec (length d) 80) as [Ls|Ls]; [left; reflexivity|].
    unfold handle_report, parse_report.
    destruct (report_decode (firstn 80 d)) as [r|] eqn:D; [|left; reflexivity].
    destruct (zget (r_id r) (equipment (mm st))) as [a|] eqn:Q; [|left; reflexivity].
    destruct (verify (a_key a) (report_signing_bytes r) (r_sig r)) eqn:V; [|left; reflexivity].
    apply report_decode_some in D as D'. destruct D' as (_ & Hid & Hts & Hp & _).
    unfold accept_half. rewrite accept_exact by (unfold is_u32 in *; lia).
    unfold accept_math. destruct (Z.leb_spec (Z.abs (r_ts r - now)) 432) as [A|A]; cbn [negb];
      [|left; reflexivity].
    destruct (Z.eqb_spec (r_p r) 0) as [P0|P0]; cbn [orb]; [left; reflexivity|].
    destruct (Z.eqb_spec (r_p r) 1) as [P1|P1]; [left; reflexivity|].
    destruct (integrate_frame st r Ho1 Ho2) as [F|W]; [left; exact F|].
    right. exists r, a. repeat split; try assumption; lia.
  Qed.

  Theorem only_if st now d st' o :
    is_u32 now -> 0 <= offset (mm st) -> offset (mm st) + 4032 < 2^32 ->
    udp_receive verify st now d = (st', o) -> st' <> st -> c01_valid st now d.
  Proof.
    intros Hn Ho1 Ho2 E N. destruct (decide st now d Hn Ho1 Ho2) as [F|V]; [|exact V].
    rewrite E in F. cbn [fst] in F. contradiction.
  Qed.

  Theorem frame st now d :
    is_u32 now -> 0 <= offset (mm st) -> offset (mm st) + 4032 < 2^32 ->
    ~ c01_valid st now d -> fst (udp_receive verify st now d) = st.
  Proof.
    intros Hn Ho1 Ho2 NV. destruct (decide st now d Hn Ho1 Ho2) as [F|V]; [exact F | contradiction].
  Qed.

End C01.

(* every observable the property names is a function of the state *)
Theorem observables_unchanged (sign : bytes -> bytes -> bytes) (stats_sb : list devstat -> Z -> bytes)
    st st' id k tso :
  st' = st ->
  sync_view st' id = sync_view st id /\
  recent_view st' k = recent_view st k /\
  snd (stats_query sign stats_sb st' tso) = snd (stats_query sign stats_sb st tso) /\
  d_reports (dd st') = d_reports (dd st).
Proof. intros ->. repeat split; reflexivity. Qed.

(* the int64-widened acceptance test is the mathematical one for every 32-bit pair *)
Theorem no_wrap ts now : is_u32 ts -> is_u32 now ->
  accept_go accept_half ts now = (Z.abs (ts - now) <=? 432).
Proof. intros. unfold accept_half. rewrite accept_exact by (unfold is_u32 in *; lia). reflexivity. Qed.
