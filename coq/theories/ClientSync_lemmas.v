From Coq Require Import ZArith List Bool String Lia.
From Coq.Strings Require Import Byte.
From GCA Require Import Wrap Bytes Bytes_lemmas CodecSync ClientSync.
Import ListNotations.
Open Scope Z_scope.

Definition d10_stream : bytes := le_enc 2 3 ++ [x01; x02; x03].
Lemma d10_prefix_panics verify mykey skey gkey now :
  client_recv verify (v_minlen v_prefix) mykey skey gkey now d10_stream = PPanic.
Proof. reflexivity. Qed.

Definition k1 : bytes := repeat x07 32.
Definition g1 : gserver := {| g_banned := false; g_loc := []; g_http := 1; g_tcp := 2; g_udp := 3 |}.
Definition d9_state : cstate :=
  {| c_gca := zeros 32; c_id := 1; c_servers := [(k1, g1)]; c_primary := k1; c_locked := false;
     c_files := {| f_gca := []; f_id := []; f_map := [] |} |}.
Definition d9_att (i : nat) : attempt := ATry [k1] ODialFail 0.
Lemma d9_prefix_lock_held verify mykey :
  let '(st', r, _) := sync_round verify v_prefix mykey d9_state d9_att in
  r = RFalse /\ c_locked st' = true.
Proof. vm_compute. split; reflexivity. Qed.
Lemma d9_fixed verify mykey :
  let '(st', r, _) := sync_round verify v_fixed mykey d9_state d9_att in
  r = RFalse /\ c_locked st' = false.
Proof. vm_compute. split; reflexivity. Qed.
