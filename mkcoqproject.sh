#!/bin/sh
# Regenerates coq/_CoqProject from the files present (theories/**/*.v and gen/*.v) and refreshes the Makefile when it changed.
cd "$(dirname "$0")/coq"
{
  echo "-R theories GCA"
  echo "-R gen GCAgen"
  echo "-arg -w -arg -notation-overridden,-deprecated-hint-without-locality,-deprecated-instance-without-locality,-ambiguous-paths"
  ls gen/*.v 2>/dev/null | sort
  find theories -name '*.v' | sort
} > _CoqProject.new
if ! cmp -s _CoqProject.new _CoqProject || [ ! -f Makefile ]; then
  mv _CoqProject.new _CoqProject
  coq_makefile -f _CoqProject -o Makefile >/dev/null 2>&1
else
  rm -f _CoqProject.new
fi
