#!/bin/sh
# Regression of the T4 translator + checker on shapes that must not be dropped silently.
# usage: corpus/skel/run.sh [path to vh binary]   (default /verif/.build/vh_prod)
set -e
VH=${1:-/verif/.build/vh_prod}
HERE=$(cd "$(dirname "$0")" && pwd)
OUT=$(mktemp -d)
VERIF_REPO=$HERE/tricky $VH -out $OUT skeletons
cp $HERE/tricky/tr.v $OUT/
cd $OUT
for f in SkelServer SkelClient; do coqc -R /verif/coq/theories GCA -R . GCAgen $f.v; done
coqc -R /verif/coq/theories GCA -R . GCAgen tr.v | tr -s ' \n' ' ' > got.txt
tr -s ' \n' ' ' < $HERE/tricky/expected.txt > want.txt
if cmp -s got.txt want.txt; then echo "skel corpus: OK"; rm -rf $OUT; else echo "skel corpus: DIFFERS (see $OUT)"; exit 1; fi
