(* C05 -- A crash at any point leaves a server that starts and keeps the durable prefix.
   Statements only; proofs in ServerCrash_lemmas.v (on top of C04's load_spec). *)
From Coq Require Import ZArith List Bool.
From GCA Require Import Wrap Bytes Codec Amap Timeslot Server ServerInv ServerDisk ServerReach_lemmas ServerFull_lemmas ServerCrash ServerCrash_lemmas.
Import ListNotations.
Open Scope Z_scope.

Section C05.
  Variable verify : bytes -> bytes -> bytes -> bool.
  Variable sign : bytes -> bytes -> bytes.
  Variable stats_sb : list devstat -> Z -> bytes.

  (* For EVERY reachable state, EVERY operation and EVERY disk image a crash during that
     operation can leave (crash_image: the disk before or after the operation's single durable
     step; for start-up, which re-appends reports and creates missing logs, any prefix of that
     work): start-up on the image succeeds, and the recovered state is equivalent to the state
     before the operation or the state after it (for a crash during restart: the restarted state,
     possibly some catch-up rotations further) -- never a partially applied operation. *)
  Theorem c05_crash_recovers st o img fresh :
    Inv verify st -> op_ok o -> crash_image verify sign stats_sb st o img ->
    exists target, (target = st \/ target = fst (Server.step verify sign stats_sb st o) \/
                    exists f n k st1, o = OpRestart f n /\ load verify (dd st) f = LOk st1 /\
                                      target = fst (catch_up sign stats_sb k st1 n)) /\
      Inv verify target /\
      exists st', load verify img fresh = LOk st' /\ mem_equiv (mm st') (mm target) /\ Inv verify st'.
  Proof. exact (crash_recovers verify sign stats_sb st o img fresh). Qed.

  (* a crash during start-up itself: the log may carry any prefix of the re-appended reports
     and the logs created at start-up may or may not exist yet *)
  Theorem c05_startup_image_recovers st img fresh :
    Inv verify st -> startup_image (dd st) img ->
    exists st', load verify img fresh = LOk st' /\ mem_equiv (mm st') (mm st) /\ Inv verify st'.
  Proof. exact (startup_image_recovers verify st img fresh). Qed.

  (* no crash point leaves a server that cannot be registered by its GCA *)
  Theorem c05_registrable st' k s :
    gca_avail (mm st') = false -> verify (tempkey (mm st')) (reg_signing_bytes k) s = true ->
    snd (register verify st' k s) = Accepted true.
  Proof. exact (recovered_registrable verify st' k s). Qed.
End C05.
