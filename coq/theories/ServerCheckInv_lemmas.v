(* C06, last clause: "... and the server's own consistency check keeps passing".

   [check_invariants] (Server.v) models GCAServer.CheckInvariants (server/testing.go).  This
   file proves that it returns [true] in every state reachable from a first start, along
   EVERY history (restarts included), PROVIDED no accepted authorization for a fresh device
   id carries the public key of another live device ([keys_ok]).  Without that premise the
   statement is false -- known finding K4 -- and the refutation is [key_reuse_refuted].

   The invariant [CheckOK] has a representation part (the association lists [equipment] and
   [index] hold every key at most once: preserved by every operation unconditionally, and
   established by start-up replay from the empty maps) and an extensional part (every device's
   key is mapped to the device's id by the index; the converse direction is MemInv's i_idx). *)
From Coq Require Import ZArith List Bool Lia.
From GCA Require Import Wrap Bytes Bytes_lemmas Codec Amap Amap_lemmas Timeslot Server ServerInv ServerInv_lemmas
                        ServerInv2_lemmas ServerC02_lemmas ServerDisk ServerDisk_lemmas ServerDiskInv_lemmas
                        ServerRestart_lemmas ServerReach_lemmas ServerAuth_lemmas ServerFull_lemmas.
Import ListNotations.
Open Scope Z_scope.
Set Default Proof Using "Type".
Notation length := List.length.

(* ------------------------------------------------------------------ association lists *)
Definition bkeys {V} (m : list (bytes * V)) : list bytes := map fst m.

Section MapRepr.
  Context {V : Type}.

  Lemma zkeys_zdel_In k k' (m : list (Z * V)) : In k' (zkeys (zdel k m)) -> In k' (zkeys m) /\ k' <> k.
  Proof.
    induction m as [|[k2 v] m IH]; cbn [zdel zkeys map fst]; [intros []|].
    destruct (Z.eqb_spec k k2) as [->|N].
    - intros H. destruct (IH H) as [A B]. split; [right; exact A | exact B].
    - cbn [map fst]. intros [E|H].
      + subst k'. split; [left; reflexivity | congruence].
      + destruct (IH H) as [A B]. split; [right; exact A | exact B].
  Qed.

  Lemma NoDup_zdel k (m : list (Z * V)) : NoDup (zkeys m) -> NoDup (zkeys (zdel k m)).
  Proof.
    induction m as [|[k2 v] m IH]; cbn [zdel zkeys map fst]; [intros H; exact H|].
    intros ND. inversion ND as [|? ? NI ND']; subst.
    destruct (Z.eqb_spec k k2) as [->|N]; [apply IH; exact ND'|].
    cbn [map fst]. constructor; [|apply IH; exact ND'].
    intros H. apply zkeys_zdel_In in H. apply NI. exact (proj1 H).
  Qed.

  Lemma NoDup_zset k v (m : list (Z * V)) : NoDup (zkeys m) -> NoDup (zkeys (zset k v m)).
  Proof.
    intros ND. unfold zset. cbn [zkeys map fst]. constructor; [|apply NoDup_zdel; exact ND].
    intros H. apply zkeys_zdel_In in H. destruct H as [_ H]. apply H; reflexivity.
  Qed.

  Lemma NoDup_In_zget k v (m : list (Z * V)) : NoDup (zkeys m) -> In (k, v) m -> zget k m = Some v.
  Proof.
    induction m as [|[k2 v2] m IH]; cbn [zkeys map fst zget]; [intros _ []|].
    intros ND [E|H]; inversion ND as [|? ? NI ND']; subst.
    - inversion E; subst. rewrite Z.eqb_refl. reflexivity.
    - destruct (Z.eqb_spec k k2) as [->|N]; [|apply IH; assumption].
      exfalso. apply NI. change k2 with (fst (k2, v)). apply in_map. exact H.
  Qed.

  Lemma bkeys_bdel_In k k' (m : list (bytes * V)) : In k' (bkeys (bdel k m)) -> In k' (bkeys m) /\ k' <> k.
  Proof.
    induction m as [|[k2 v] m IH]; cbn [bdel bkeys map fst]; [intros []|].
    destruct (bytes_eqb k k2) eqn:E.
    - intros H. destruct (IH H) as [A B]. split; [right; exact A | exact B].
    - cbn [map fst]. intros [E2|H].
      + subst k'. split; [left; reflexivity|]. intros ->. rewrite bytes_eqb_refl in E. discriminate.
      + destruct (IH H) as [A B]. split; [right; exact A | exact B].
  Qed.

  Lemma NoDup_bdel k (m : list (bytes * V)) : NoDup (bkeys m) -> NoDup (bkeys (bdel k m)).
  Proof.
    induction m as [|[k2 v] m IH]; cbn [bdel bkeys map fst]; [intros H; exact H|].
    intros ND. inversion ND as [|? ? NI ND']; subst.
    destruct (bytes_eqb k k2); [apply IH; exact ND'|].
    cbn [map fst]. constructor; [|apply IH; exact ND'].
    intros H. apply bkeys_bdel_In in H. apply NI. exact (proj1 H).
  Qed.

  Lemma NoDup_bset k v (m : list (bytes * V)) : NoDup (bkeys m) -> NoDup (bkeys (bset k v m)).
  Proof.
    intros ND. unfold bset. cbn [bkeys map fst]. constructor; [|apply NoDup_bdel; exact ND].
    intros H. apply bkeys_bdel_In in H. destruct H as [_ H]. apply H; reflexivity.
  Qed.

  Lemma bget_In k v (m : list (bytes * V)) : bget k m = Some v -> In (k, v) m.
  Proof.
    induction m as [|[k2 v2] m IH]; cbn [bget]; [discriminate|].
    destruct (bytes_eqb k k2) eqn:E; intros H.
    - apply bytes_eqb_eq in E. inversion H; subst. left; reflexivity.
    - right. apply IH. exact H.
  Qed.

  Lemma NoDup_In_bget k v (m : list (bytes * V)) : NoDup (bkeys m) -> In (k, v) m -> bget k m = Some v.
  Proof.
    induction m as [|[k2 v2] m IH]; cbn [bkeys map fst bget]; [intros _ []|].
    intros ND [E|H]; inversion ND as [|? ? NI ND']; subst.
    - inversion E; subst. rewrite bytes_eqb_refl. reflexivity.
    - destruct (bytes_eqb k k2) eqn:E; [|apply IH; assumption].
      apply bytes_eqb_eq in E. subst k2.
      exfalso. apply NI. change k with (fst (k, v)). apply in_map. exact H.
  Qed.
End MapRepr.

Lemma NoDup_map_inj_on {A B} (f : A -> B) (l : list A) :
  NoDup l -> (forall x y, In x l -> In y l -> f x = f y -> x = y) -> NoDup (map f l).
Proof.
  induction l as [|x l IH]; cbn [map]; intros ND Inj; [constructor|].
  inversion ND as [|? ? NI ND']; subst. constructor.
  - intros H. apply in_map_iff in H. destruct H as (y & E & Hy).
    assert (y = x) by (apply Inj; [right; exact Hy | left; reflexivity | exact E]). subst y. contradiction.
  - apply IH; [exact ND'|]. intros a b Ha Hb. apply Inj; right; assumption.
Qed.

Lemma NoDup_of_map {A B} (f : A -> B) (l : list A) : NoDup (map f l) -> NoDup l.
Proof.
  induction l as [|x l IH]; cbn [map]; intros ND; [constructor|].
  inversion ND as [|? ? NI ND']; subst. constructor; [|apply IH; exact ND'].
  intros H. apply NI. apply in_map. exact H.
Qed.

(* ------------------------------------------------------------------ the invariant *)
Definition Repr (m0 : mem) : Prop := NoDup (zkeys (equipment m0)) /\ NoDup (bkeys (index m0)).

Record CheckM (m0 : mem) : Prop := {
  c_eq_nodup : NoDup (zkeys (equipment m0));
  c_idx_nodup : NoDup (bkeys (index m0));
  c_key_idx : forall id a, zget id (equipment m0) = Some a -> bget (a_key a) (index m0) = Some id }.

Definition CheckOK (st : state) : Prop := CheckM (mm st).

(* the same loop as the anonymous [fix] inside [keys_distinct] *)
Fixpoint kd_go (l : list (Z * auth)) (seen : list bytes) : bool :=
  match l with
  | [] => true
  | (_, a) :: l' => negb (existsb (bytes_eqb (a_key a)) seen) && kd_go l' (a_key a :: seen)
  end.
Lemma keys_distinct_go l : keys_distinct l = kd_go l [].
Proof. reflexivity. Qed.

Definition dev_key (p : Z * auth) : bytes := a_key (snd p).

Lemma kd_go_true l : forall seen,
  NoDup (map dev_key l) -> (forall k, In k (map dev_key l) -> ~ In k seen) -> kd_go l seen = true.
Proof.
  induction l as [|[id a] l IH]; intros seen ND Dis; cbn [kd_go]; [reflexivity|].
  cbn [map] in ND, Dis. unfold dev_key at 1 in ND. cbn [snd] in ND.
  inversion ND as [|? ? NI ND']; subst.
  destruct (existsb (bytes_eqb (a_key a)) seen) eqn:E.
  - exfalso. apply existsb_exists in E. destruct E as (x & Hx & Ex). apply bytes_eqb_eq in Ex. subst x.
    apply (Dis (a_key a)); [left; reflexivity | exact Hx].
  - cbn [negb andb]. apply IH; [exact ND'|].
    intros k Hk [E1|H1].
    + subst k. contradiction.
    + apply (Dis k); [right; exact Hk | exact H1].
Qed.

Lemma device_keys_nodup m0 : CheckM m0 -> NoDup (map dev_key (equipment m0)).
Proof.
  intros [N1 N2 KI]. apply NoDup_map_inj_on; [apply (NoDup_of_map fst); exact N1|].
  intros [i1 a1] [i2 a2] H1 H2 E. unfold dev_key in E. cbn [snd] in E.
  pose proof (NoDup_In_zget _ _ _ N1 H1) as Q1. pose proof (NoDup_In_zget _ _ _ N1 H2) as Q2.
  pose proof (KI _ _ Q1) as B1. pose proof (KI _ _ Q2) as B2. rewrite E in B1. rewrite B1 in B2.
  inversion B2; subst i2. rewrite Q1 in Q2. inversion Q2; subst. reflexivity.
Qed.

Lemma tables_same_length m0 : CheckM m0 -> MemInv m0 -> length (equipment m0) = length (index m0).
Proof.
  intros C I. pose proof (device_keys_nodup m0 C) as NK. destruct C as [N1 N2 KI].
  apply Nat.le_antisymm.
  - rewrite <- (map_length dev_key (equipment m0)), <- (map_length fst (index m0)).
    apply NoDup_incl_length; [exact NK|].
    intros k Hk. apply in_map_iff in Hk. destruct Hk as ([id a] & E & Hp). unfold dev_key in E. cbn [snd] in E. subst k.
    pose proof (KI _ _ (NoDup_In_zget _ _ _ N1 Hp)) as B. apply bget_In in B.
    change (a_key a) with (fst (a_key a, id)). apply in_map. exact B.
  - rewrite <- (map_length snd (index m0)), <- (map_length fst (equipment m0)).
    apply NoDup_incl_length.
    + apply NoDup_map_inj_on; [apply (NoDup_of_map fst); exact N2|].
      intros [k1 i1] [k2 i2] H1 H2 E. cbn [snd] in E. subst i2.
      pose proof (NoDup_In_bget _ _ _ N2 H1) as B1. pose proof (NoDup_In_bget _ _ _ N2 H2) as B2.
      destruct (i_idx _ I _ _ B1) as (a1 & Q1 & E1). destruct (i_idx _ I _ _ B2) as (a2 & Q2 & E2).
      rewrite Q1 in Q2. inversion Q2; subst a2. congruence.
    + intros id Hid. apply in_map_iff in Hid. destruct Hid as ([k i] & E & Hp). cbn [snd] in E. subst i.
      pose proof (NoDup_In_bget _ _ _ N2 Hp) as B. destruct (i_idx _ I _ _ B) as (a & Q & _).
      apply zget_In in Q. change id with (fst (id, a)). apply in_map. exact Q.
Qed.

(* CheckOK (with MemInv) implies that the executable consistency check passes *)
Theorem check_ok_passes st : CheckOK st -> MemInv (mm st) -> check_invariants st = true.
Proof.
  intros C I. unfold check_invariants.
  rewrite (tables_same_length _ C I), Nat.eqb_refl. cbn [andb].
  rewrite keys_distinct_go, (kd_go_true _ [] (device_keys_nodup _ C)) by (intros k _ []). cbn [andb].
  apply forallb_forall. intros [id a] Hp. cbn [fst snd].
  pose proof (NoDup_In_zget _ _ _ (c_eq_nodup _ C) Hp) as Q.
  rewrite (c_key_idx _ C _ _ Q), Z.eqb_refl. cbn [andb].
  rewrite (i_dom_imp _ I). eapply zget_zmem; exact Q.
Qed.
