(* C12 -- No untrusted input or peer failure can crash or wedge the server.
   Statements only; proofs in ServerInv*_lemmas.v, ServerReach_lemmas.v, Skel_lemmas.v. *)
From Coq Require Import ZArith List Bool.
From Coq Require Import String.
From GCA Require Import Wrap Bytes Codec Amap Timeslot Server ServerInv ServerDisk ServerReach_lemmas ServerFull_lemmas Skel SkelSpec Skel_lemmas SkelObligations.
Import ListNotations.
Open Scope Z_scope.

Section C12.
  Variable verify : bytes -> bytes -> bytes -> bool.
  Variable sign : bytes -> bytes -> bytes.
  Variable stats_sb : list devstat -> Z -> bytes.

  (* from any state satisfying the invariant (memory invariant + disk agreement), NO datagram,
     request value, clock, impact datum or restart makes a critical section panic or start-up
     fail, and the invariant is re-established *)
  Theorem c12_step_no_panic st o : Inv verify st -> op_ok o ->
    Inv verify (fst (Server.step verify sign stats_sb st o)) /\ snd (Server.step verify sign stats_sb st o) <> Server.Panic.
  Proof. exact (step_inv verify sign stats_sb st o). Qed.

  (* hence along every history *)
  Theorem c12_history_no_panic ops st : Inv verify st -> Forall op_ok ops ->
    Inv verify (Server.run verify sign stats_sb st ops) /\
    Forall (fun o => o <> Server.Panic) (outs verify sign stats_sb st ops).
  Proof. exact (run_inv verify sign stats_sb ops st). Qed.

  (* the first start on a directory holding only the temporary key, for any clock, including
     the multi-week catch-up configurations *)
  Theorem c12_first_start tk fresh now st0 : clock_ok now ->
    load verify (fresh_disk tk) fresh = LOk st0 ->
    Inv verify (fst (catch_up sign stats_sb (catchup_fuel now) st0 now)) /\
    snd (catch_up sign stats_sb (catchup_fuel now) st0 now) = Quiet.
  Proof. exact (first_start_full verify sign stats_sb tk fresh now st0). Qed.
End C12.

(* Shutdown: every blocking read on an accepted connection is preceded by a deadline on every path
   (lock/IO skeleton regenerated from the source on every run), so every connection handler
   terminates within its deadline whatever the peer does and Close() is not held up by idle or
   half-sent connections. *)
Theorem c12_reads_have_deadline_check :
  server_readers <> []
  /\ check_scope (mk_env server_fields server_exempt server_fns server_readers die_on_panic) = true.
Proof. exact skel_sync_deadline. Qed.

Theorem c12_reads_have_deadline :
  forall f, In f server_fns -> mem_str (f_name f) server_readers = true ->
  forall e, In e (entries (c_kind (f_con f))) ->
  forall u, fn_run (mk_env server_fields server_exempt server_fns server_readers die_on_panic) f e u ->
    forall v, u <> UViol v.
Proof. exact server_reads_have_deadline. Qed.
