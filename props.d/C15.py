# C15 -- see DESIGN.md section 5
PROP = {
    "props_v": "Props/C15.v",
    "extra_v": ["CodecRun.v", "ServerRun.v"],
    "gen_bins": ["test"],
    "gen_obligations": [
        "c15_gen_report_serialize@Layouts", "c15_gen_report_deserialize@Layouts", "c15_gen_report_signing@Layouts",
        "c15_gen_auth_serialize@Layouts", "c15_gen_auth_deserialize@Layouts", "c15_gen_reg_signing@Layouts",
    ],
    "suites": [("test", "codec"), ("test", "tornfiles")],
    "run_vo": "CodecRun.vo",
    "assumptions": [
        "authorized-server / migration theorems assume locations of at most 255 bytes (the length byte is the length modulo 256); beyond that the round trip and the injectivity of migration signing bytes are refuted (c15_aserver_roundtrip_beyond_255_refuted, c15_migration_signing_beyond_255_refuted)",
        "the stream decoder's outcome is modelled relative to memlimit = the largest block the Go runtime can allocate; c15_stream_total holds for every memlimit that can hold a copy of the input, the harness runs hostile headers in a child process limited to 2 GB of address space",
        "c15_changed_signed_value_rejected is proved for an arbitrary verify under which one signature is valid for at most one message per key; that the real glow.Verify (secp256k1/Keccak-256) rejects every single-bit flip of message, signature and key, and that glow.Sign is deterministic, is tested by the harness oracle, not proved",
        "JSON transport of an authorization (encoding/json) is tested (bitwise equality after Marshal/Unmarshal, incl. -0, subnormals, 17-digit values), not proved",
        "the server-side repository has no decoder for AuthorizedServer / EquipmentMigration: the reference decoders of CodecServers.v establish unique decodability of the REAL encoder output (checked on every harness case), the client's sync parser belongs to C10",
        "fixed-width layouts are re-derived from the Go source by a go/ast walker (harness/suites/layouts.go); variable-length encoders (statistics, server map, authorized server, migration) are tied to the model by the correspondence run and known-answer vectors only",
    ],
}
TEXT = {
    "text": "Coq theorems over all field values and all byte strings: per structure decode(encode x) = x, refusal of every other length, encode(decode b) = b, explicit little-endian layout, signing bytes = ASCII structure name ++ fields and injective in the signed fields; pairwise disjointness of the six signing-byte languages for all field values; stream decoder of weekly statistics returns the exact consumed length, decodes concatenations of k records, refuses truncations and (after the D15 repair, commit f245dd2) is total: never fatal, fuel never exhausted; client server map round-trips as a finite map for every entry order; a generic theorem turns every well-formed (offset,width,field,kind) layout into a codec and the layouts of the fixed-width Go functions, re-extracted by go/ast on every run, are proved equal to the documented ones; the reference codecs are compared with the real encoders/decoders (bytes, accepted/refused, consumed lengths) on boundary and random values, lengths K-2..K+2, streams of 0..3 records, maps with locations 0..65535; the real glow.Verify is tested on all single-bit flips. Added after seeded-change rounds: -0.0 and subnormals produced deterministically with an implementation-only round-trip and layout oracle for statistics records, the (r, n-s) twin of every test signature, suite tornfiles, and a second layout translator that recovers fixed-width layouts from the compiled functions by bit probing. Round 5: stream counts whose size wraps in 32 bits (133021, 2^27, 266042) in the child process; JSON transport through the real endpoint (POST authorize-equipment, GET equipment) with the longest documents the type has.",
    "note": "Trusted: Coq kernel + vm_compute, the layout translator, the harness (generators, run-length encoding of long byte strings, child-process runner). Modelled, not verified: secp256k1/Keccak (arbitrary verify with a binding hypothesis), encoding/json, the Go allocator (memlimit parameter). Authorized-server locations above 255 bytes are outside the proved domain (two refuted statements exhibit the truncation).",
    "technique": "Coq proof (structural induction over byte lists, generic layout interpreter proved once + vm_compute on regenerated layouts) + differential correspondence (vm_compute) + known-answer vectors + real-crypto bit-flip oracle",
}
