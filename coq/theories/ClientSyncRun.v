(* Evaluators that run the models of ClientSync.v / ServerList.v on the histories the harness
   ran against the real client and server (suites syncwire, rogue, serverlist, migrate).
   [verify] is instantiated by membership in the table of the genuine signatures the harness
   created with glow.Sign. *)
From Coq Require Import ZArith List Bool String.
From Coq.Strings Require Import Byte.
From GCA Require Import Wrap Bytes CodecSync ClientSync ServerList RunLib.
Import ListNotations.
Open Scope Z_scope.

Definition sigtab := list (bytes * bytes * bytes).            (* key, message, signature *)
Definition verify_tbl (t : sigtab) (k m s : bytes) : bool :=
  existsb (fun e => let '(k', m', s') := e in bytes_eqb s s' && bytes_eqb k k' && bytes_eqb m m') t.

Definition mk_as (k : bytes) (bn : bool) (loc : bytes) (h t u : Z) (sg : bytes) : aserver :=
  {| as_key := k; as_banned := bn; as_loc := loc; as_http := h; as_tcp := t; as_udp := u; as_sig := sg |}.
Definition mk_gs (k : bytes) (bn : bool) (loc : bytes) (h t u : Z) : bytes * gserver :=
  (k, {| g_banned := bn; g_loc := loc; g_http := h; g_tcp := t; g_udp := u |}).

(* ------------------------------------------------------------------ parser cases (C10, C11) *)
(* a base: device key, contacted server's key, GCA key, the bytes on the wire, the genuine
   signatures that occur in it *)
Definition pbase := (bytes * bytes * bytes * bytes * sigtab)%type.
Inductive mutation :=
| MNone
| MFlip (pos bit : nat)                  (* one bit of the stream inverted *)
| MTrunc (n : nat)                       (* connection closed after n bytes *)
| MExtend (extra : bytes)                (* bytes appended after the reply *)
| MReplace (s : bytes) (signer : option bytes)   (* another stream; Some k: its last 64 bytes are a
                                            genuine signature by k over the bytes between the
                                            length prefix and that signature *)
| MKeys (mykey skey gkey : bytes).       (* same stream, parsed by another device / with other keys *)
Inductive pobs := OOk (off : Z) (bf ng : bytes) (nid : Z) (l : list aserver) | OErr (e : perr) | OPanic.

Fixpoint flip_at (pos : nat) (bit : nat) (b : bytes) : bytes :=
  match b, pos with
  | [], _ => []
  | x :: r, O => z2b (Z.lxor (b2z x) (2 ^ Z.of_nat bit)) :: r
  | x :: r, S p => x :: flip_at p bit r
  end.
Definition outer_triple (k s : bytes) : bytes * bytes * bytes :=
  (k, firstn (length s - 66) (skipn 2 s), skipn (length s - 64) s).

Definition perr_eqb (a b : perr) : bool :=
  match a, b with
  | ERead, ERead | EShort, EShort | ETime, ETime | ESig, ESig | EKey, EKey | EMigSig, EMigSig
  | ESrvLen, ESrvLen | ESrvSig, ESrvSig => true
  | _, _ => false
  end.
Definition pres_matches (r : presult) (o : pobs) : bool :=
  match r, o with
  | POk p, OOk off bf ng nid l =>
      (p_offset p =? off) && bytes_eqb (p_bitfield p) bf && bytes_eqb (p_newgca p) ng &&
      (p_newid p =? nid) && list_eqb aserver_eqb (p_servers p) l
  | PErr e, OErr e' => perr_eqb e e'
  | PPanic, OPanic => true
  | _, _ => false
  end.

Definition pcase := (nat * mutation * Z * pobs)%type.          (* base index, mutation, client clock, observed *)
Definition pcase_ok (minlen : Z) (bases : list pbase) (c : pcase) : bool :=
  let '(bi, mu, now, o) := c in
  match nth_error bases bi with
  | None => false
  | Some (mykey, skey, gkey, stream, tbl) =>
      let '(mk, sk, gk, s, t) :=
        match mu with
        | MNone => (mykey, skey, gkey, stream, tbl)
        | MFlip p b => (mykey, skey, gkey, flip_at p b stream, tbl)
        | MTrunc n => (mykey, skey, gkey, firstn n stream, tbl)
        | MExtend e => (mykey, skey, gkey, stream ++ e, tbl)
        | MReplace s' None => (mykey, skey, gkey, s', tbl)
        | MReplace s' (Some k) => (mykey, skey, gkey, s', outer_triple k s' :: tbl)
        | MKeys a b c' => (a, b, c', stream, tbl)
        end in
      pres_matches (client_recv (verify_tbl t) minlen mk sk gk now s) o
  end.
Definition pc_mismatches (minlen : Z) (bases : list pbase) := bad_indices (pcase_ok minlen bases).

(* compact family for the sweep over all length prefixes: the peer announces n bytes and sends
   [sent] bytes: fill ... fill | time (8) | fill x 64 when sent >= 72, else fill only *)
Definition sweep_stream (n sent : Z) (fill : byte) (tm : Z) : bytes :=
  le_enc 2 n ++
  (if sent <? 72 then repeat fill (Z.to_nat sent)
   else repeat fill (Z.to_nat (sent - 72)) ++ le_enc 8 tm ++ repeat fill 64).
Definition swcase := (Z * Z * Z * Z * Z * pobs)%type.          (* n, sent, fill, time, now, observed *)
Definition swcase_ok (minlen : Z) (keys : bytes * bytes * bytes) (c : swcase) : bool :=
  let '(n, sent, fill, tm, now, o) := c in
  let '(mk, sk, gk) := keys in
  pres_matches (client_recv (verify_tbl []) minlen mk sk gk now (sweep_stream n sent (z2b fill) tm)) o.
Definition sw_mismatches (minlen : Z) (keys : bytes * bytes * bytes) := bad_indices (swcase_ok minlen keys).

(* ------------------------------------------------------------------ server view cases (C10) *)
(* the harness knows the server's data through the public endpoints; the model rebuilds the
   reply bytes from it and they must be the bytes seen on the wire *)
Definition vcase := (bytes * Z * list Z * option migration * list aserver * Z * bytes * bytes)%type.
   (* device key, offset, powers (4032), migration, servers, time, server signature, observed wire *)
Definition mk_mig (eq ng : bytes) (nid : Z) (l : list aserver) (sg : bytes) : migration :=
  {| mg_equipment := eq; mg_newgca := ng; mg_newid := nid; mg_servers := l; mg_sig := sg |}.
Definition vcase_ok (c : vcase) : bool :=
  let '(k, off, pw, mg, srv, tm, sg, wire) := c in
  bytes_eqb (sync_reply {| sv_key := k; sv_offset := off; sv_powers := pw; sv_mig := mg;
                           sv_servers := srv; sv_time := tm |} sg) wire.
Definition v_mismatches := bad_indices vcase_ok.
(* run-length encoded power list: (count, value) pairs *)
Definition rle (l : list (nat * Z)) : list Z := flat_map (fun p => repeat (snd p) (fst p)) l.

(* ------------------------------------------------------------------ sync rounds (C11, C17) *)
Definition robs := (rres * bytes * Z * smap * bytes * bool * list bytes * bytes * bytes * bytes)%type.
   (* result, gca, id, servers, primary, lock free, contacted, gcaPubKey.dat, shortID.dat, gcaServers.dat *)
Definition rres_eqb (a b : rres) : bool :=
  match a, b with
  | RTrue, RTrue | RFalse, RFalse | RPanic, RPanic | RHang, RHang | RBlocked, RBlocked | RFuel, RFuel => true
  | _, _ => false
  end.
Definition att_fn (l : list (list bytes * outcome * Z)) (i : nat) : attempt :=
  match nth_error l i with
  | Some (ord, o, now) => ATry ord o now
  | None => AStop
  end.
Definition map_file_is (raw : bytes) (m : smap) : bool :=
  match smap_deserialize raw with DOk m' => smap_eqb m' m | _ => false end.
Definition state_matches (st : cstate) (gca : bytes) (id : Z) (m : smap) (fg fi fm : bytes) : bool :=
  bytes_eqb (c_gca st) gca && (c_id st =? id) && smap_eqb (c_servers st) m &&
  bytes_eqb (f_gca (c_files st)) fg && bytes_eqb (f_id (c_files st)) fi && map_file_is fm (c_servers st).
Definition round_matches (r : cstate * rres * list bytes) (o : robs) : bool :=
  let '(st, res, tr) := r in
  let '(ores, gca, id, m, prim, free, otr, fg, fi, fm) := o in
  rres_eqb res ores && state_matches st gca id m fg fi fm &&
  (* the primary server is only meaningful while the lock is free *)
  (negb free || bytes_eqb (c_primary st) prim) &&
  Bool.eqb (negb (c_locked st)) free && list_eqb bytes_eqb tr otr.

(* one client history: initial files, then operations with what was observed after each *)
Inductive hop :=
| HLoad (ord : list bytes) (ok : bool) (gca : bytes) (id : Z) (m : smap) (prim : bytes)
| HRound (atts : list (list bytes * outcome * Z)) (o : robs).
Definition hcase := (bytes * sigtab * (bytes * bytes * bytes) * list hop)%type.   (* device key, table, files, ops *)

Definition dead_state : cstate :=
  {| c_gca := []; c_id := 0; c_servers := []; c_primary := []; c_locked := false;
     c_files := {| f_gca := []; f_id := []; f_map := [] |} |}.
Fixpoint hrun (ver : version) (mykey : bytes) (t : sigtab) (st : cstate) (ops : list hop) : bool :=
  match ops with
  | [] => true
  | HLoad ord ok gca id m prim :: r =>
      match client_load (c_files st) ord with
      | LdOk st' =>
          ok && bytes_eqb (c_gca st') gca && (c_id st' =? id) && smap_eqb (c_servers st') m &&
          bytes_eqb (c_primary st') prim && hrun ver mykey t st' r
      | _ => negb ok && hrun ver mykey t st r      (* the files stay; later operations may rewrite them *)
      end
  | HRound atts o :: r =>
      let res := sync_round (verify_tbl t) ver mykey st (att_fn atts) in
      round_matches res o && hrun ver mykey t (fst (fst res)) r
  end.
Definition hcase_ok (ver : version) (c : hcase) : bool :=
  let '(mykey, t, (fg, fi, fm), ops) := c in
  hrun ver mykey t {| c_gca := []; c_id := 0; c_servers := []; c_primary := []; c_locked := false;
                      c_files := {| f_gca := fg; f_id := fi; f_map := fm |} |} ops.
Definition h_mismatches (ver : version) := bad_indices (hcase_ok ver).

(* ------------------------------------------------------------------ sync trigger (C11) *)
(* the loop of threadedSendReports re-implemented tick for tick is compared on status
   sequences: (initial ticks, statuses, expected launch pattern) *)
Fixpoint ticks_pattern (ticks : Z) (oks : list bool) : list bool :=
  match oks with
  | [] => []
  | ok :: r => let '(t, f) := tick_step ticks ok in f :: ticks_pattern t r
  end.

(* ------------------------------------------------------------------ server list (C17) *)
Inductive sop := SPost (s : aserver) | SMigrate (m : migration).
(* (gca key, table, operations each with: accepted by the server?, the list served by GET afterwards) *)
Definition slcase := (bytes * sigtab * list (sop * bool * list aserver))%type.
Fixpoint slrun (t : sigtab) (gk : bytes) (l : list aserver) (ops : list (sop * bool * list aserver)) : bool :=
  match ops with
  | [] => true
  | (SPost s, acc, after) :: r =>
      let '(l', ok) := post_server (verify_tbl t) gk l s in
      Bool.eqb ok acc && list_eqb aserver_eqb l' after && slrun t gk l' r
  | (SMigrate m, acc, after) :: r =>
      Bool.eqb (validate_migration (verify_tbl t) gk m) acc && list_eqb aserver_eqb l after && slrun t gk l r
  end.
Definition slcase_ok (c : slcase) : bool := let '(gk, t, ops) := c in slrun t gk [] ops.
Definition sl_mismatches := bad_indices slcase_ok.
